#!/venv/bin/python
"""
Ingest a change produced by an independent sub-agent in a scratch worktree:

  tools/ingest_mutant.py <worktree> <property> <name> [--props C01,C04] [--runs N]

 1. takes `git diff` of the worktree as patch.diff and the demo_<P>.py / MUTANT.md it left,
 2. confirms in a fresh scratch copy of /repo (outside /repo and /verif) that
      - the patch applies, the test suite result is unchanged (221 passed, 1 failed),
      - the demo passes without the patch and fails with it,
 3. runs the quick checks of the named properties (default: the property it was written for)
    against the patched copy (VERIF_REPO) and records which of them raise a VIOLATION,
 4. writes /verif/seeded/<name>/{patch.diff, demo.py, MUTANT.md, meta.json}; removes the copy.
"""
import json
import os
import shutil
import subprocess
import sys
import tempfile
import time

VERIF = os.path.dirname(os.path.dirname(os.path.abspath(__file__)))
PY = '/venv/bin/python'


def sh(cmd, cwd=None, env=None, timeout=3600):
    p = subprocess.run(cmd, cwd=cwd, env=env, stdout=subprocess.PIPE, stderr=subprocess.STDOUT, timeout=timeout, shell=isinstance(cmd, str))
    return p.returncode, p.stdout.decode(errors='replace')


def tests(dst):
    rc, out = sh('%s -m pytest -q -p no:cacheprovider --timeout=900 2>&1 | tail -1' % PY, cwd=dst)
    import re
    return re.sub(r' in [0-9.]+s.*$', '', out.strip())


def main():
    wt, prop, name = sys.argv[1], sys.argv[2], sys.argv[3]
    props = [prop]
    runs = None
    for i, a in enumerate(sys.argv):
        if a == '--props':
            props = sys.argv[i + 1].split(',')
        if a == '--runs':
            runs = sys.argv[i + 1]
    rc, diff = sh(['git', '-C', wt, 'diff'])
    if not diff.strip():
        print('no diff in', wt)
        return 2
    demo_src = os.path.join(wt, 'demo_%s.py' % prop)
    if not os.path.exists(demo_src):
        cands = [f for f in os.listdir(wt) if f.startswith('demo') and f.endswith('.py')]
        if not cands:
            print('no demo in', wt)
            return 2
        demo_src = os.path.join(wt, cands[0])
    out_dir = os.path.join(VERIF, 'seeded', name)
    os.makedirs(out_dir, exist_ok=True)
    open(os.path.join(out_dir, 'patch.diff'), 'w').write(diff)
    shutil.copy(demo_src, os.path.join(out_dir, 'demo.py'))
    if os.path.exists(os.path.join(wt, 'MUTANT.md')):
        shutil.copy(os.path.join(wt, 'MUTANT.md'), os.path.join(out_dir, 'MUTANT.md'))
    base = tempfile.mkdtemp(prefix='sfc_verif_seed_', dir='/tmp')
    dst = os.path.join(base, 'repo')
    meta = {'property': prop, 'name': name, 'ran': []}
    try:
        shutil.copytree('/repo', dst, ignore=shutil.ignore_patterns('.git', '__pycache__', '*.pyc', 'docs'))
        shutil.copy(demo_src, os.path.join(dst, 'demo.py'))
        env = dict(os.environ, PYTHONDONTWRITEBYTECODE='1')
        rc0, o0 = sh([PY, '-W', 'ignore', 'demo.py'], cwd=dst, env=env, timeout=900)
        t0 = tests(dst)
        rcp, op = sh(['patch', '-p1', '-s', '-i', os.path.join(out_dir, 'patch.diff')], cwd=dst)
        if rcp != 0:
            print('PATCH FAILED', op)
            return 2
        rc1, o1 = sh([PY, '-W', 'ignore', 'demo.py'], cwd=dst, env=env, timeout=900)
        t1 = tests(dst)
        meta['demo_without_change'] = {'exit': rc0, 'tail': o0.strip().split('\n')[-1][0:200]}
        meta['demo_with_change'] = {'exit': rc1, 'tail': o1.strip().split('\n')[-1][0:300]}
        meta['tests_without_change'] = t0
        meta['tests_with_change'] = t1
        meta['confirmed'] = (rc0 == 0 and rc1 != 0 and t0 == t1)
        meta['ran'].append('demo.py without/with patch in a scratch copy; pytest -q before/after')
        print('demo without: exit %d | with: exit %d | tests: %s -> %s | confirmed=%s' % (rc0, rc1, t0, t1, meta['confirmed']))
        detected, missed = [], []
        details = {}
        for pid in props:
            env2 = dict(os.environ, VERIF_REPO=dst, VERIF_EVIDENCE_DIR=os.path.join(VERIF, 'out', 'selftest_evidence'),
                        PYTHONHASHSEED='0', PYTHONDONTWRITEBYTECODE='1')
            cmd = [PY, '-W', 'ignore', '-m', 'simfw.cli', 'check', pid, '--tier', 'quick']
            if runs:
                cmd += ['--runs', runs]
            ts = time.time()
            rc, out = sh(cmd, cwd=VERIF, env=env2, timeout=3600)
            sigs = [ln.strip()[0:300] for ln in out.split('\n') if ln.strip().startswith('kind=')]
            caught = rc == 1 and ('VIOLATION property=' + pid) in out
            (detected if caught else missed).append(pid)
            details[pid] = {'exit': rc, 'wall_s': round(time.time() - ts, 1), 'signatures': sigs[0:4],
                            'tail': out.strip().split('\n')[-1][0:200]}
            print('%s by %s (exit %d, %.0fs) %s' % ('CAUGHT' if caught else 'MISSED', pid, rc, time.time() - ts, sigs[0][0:200] if sigs else ''))
            meta['ran'].append('./run check %s --tier quick with VERIF_REPO=<patched copy>' % pid)
        meta['detected_by'] = detected
        meta['missed_by'] = missed
        meta['check_details'] = details
    finally:
        shutil.rmtree(base, ignore_errors=True)
    note = ''
    mp = os.path.join(out_dir, 'MUTANT.md')
    if os.path.exists(mp):
        note = open(mp).read()
    meta['what'] = note.strip().split('\n')[0][0:200] if note else ''
    meta['needs_to_manifest'] = 'see MUTANT.md'
    json.dump(meta, open(os.path.join(out_dir, 'meta.json'), 'w'), indent=1)
    return 0


if __name__ == '__main__':
    sys.exit(main())
