#!/venv/bin/python
"""
Re-run quick checks against a seeded change that was missed at first:

  tools/retry_mutant.py <seeded-name> <P1[,P2]> [--runs N] [--seed S]

Applies seeded/<name>/patch.diff to a scratch copy of /repo (outside /repo and /verif), runs the quick
check of each named property with VERIF_REPO pointing at the copy, and on a catch moves the property from
meta.json's missed_by to detected_by (the first miss stays recorded under missed_at_first_by).
"""
import json
import os
import shutil
import subprocess
import sys
import tempfile
import time

VERIF = os.path.dirname(os.path.dirname(os.path.abspath(__file__)))
PY = '/venv/bin/python'


def main():
    name, props = sys.argv[1], sys.argv[2].split(',')
    runs = seed = None
    for i, a in enumerate(sys.argv):
        if a == '--runs':
            runs = sys.argv[i + 1]
        if a == '--seed':
            seed = sys.argv[i + 1]
    d = os.path.join(VERIF, 'seeded', name)
    meta = json.load(open(os.path.join(d, 'meta.json')))
    base = tempfile.mkdtemp(prefix='sfc_verif_retry_', dir='/tmp')
    dst = os.path.join(base, 'repo')
    rc_all = 0
    try:
        shutil.copytree('/repo', dst, ignore=shutil.ignore_patterns('.git', '__pycache__', '*.pyc', 'docs'))
        p = subprocess.run(['patch', '-p1', '-s', '-i', os.path.join(d, 'patch.diff')], cwd=dst)
        if p.returncode != 0:
            print('PATCH FAILED')
            return 2
        for pid in props:
            env = dict(os.environ, VERIF_REPO=dst, VERIF_EVIDENCE_DIR=os.path.join(VERIF, 'out', 'selftest_evidence'),
                       PYTHONHASHSEED='0', PYTHONDONTWRITEBYTECODE='1')
            cmd = [PY, '-W', 'ignore', '-m', 'simfw.cli', 'check', pid, '--tier', 'quick']
            if runs:
                cmd += ['--runs', runs]
            if seed:
                cmd += ['--seed', seed]
            ts = time.time()
            q = subprocess.run(cmd, cwd=VERIF, env=env, stdout=subprocess.PIPE, stderr=subprocess.STDOUT)
            out = q.stdout.decode(errors='replace')
            sigs = [ln.strip()[0:400] for ln in out.split('\n') if ln.strip().startswith('kind=')]
            caught = q.returncode == 1 and ('VIOLATION property=' + pid) in out
            print('%s by %s (exit %d, %.0fs) %s' % ('CAUGHT' if caught else 'MISSED', pid, q.returncode, time.time() - ts,
                                                    sigs[0] if sigs else out.strip().split('\n')[-1][0:300]))
            if caught:
                first = meta.setdefault('missed_at_first_by', [])
                for m in meta.get('missed_by', []):
                    if m not in first:
                        first.append(m)
                meta['missed_by'] = [m for m in meta.get('missed_by', []) if m != pid]
                if pid not in meta.setdefault('detected_by', []):
                    meta['detected_by'].append(pid)
                meta.setdefault('check_details', {})[pid] = {'exit': q.returncode, 'wall_s': round(time.time() - ts, 1),
                                                             'signatures': sigs[0:4], 'after_strengthening': True}
            else:
                rc_all = 1
    finally:
        shutil.rmtree(base, ignore_errors=True)
    json.dump(meta, open(os.path.join(d, 'meta.json'), 'w'), indent=1)
    return rc_all


if __name__ == '__main__':
    sys.exit(main())
