#!/venv/bin/python
"""Regenerates /verif/MANIFEST.json from the table below (keeps it valid at all times)."""
import json
import os

HERE = os.path.dirname(os.path.dirname(os.path.abspath(__file__)))
BASELINE = ("cd /repo && /venv/bin/python -m pytest -ra -q -p no:cacheprovider --timeout=900 "
            "--continue-on-collection-errors")

CHECKS = {
    'C02': dict(
        technique='deterministic simulation: seeded EQN sessions with injected/natural evaluation faults; '
                  'substitute-back oracle per reported period',
        text='Seeded search over equation blocks, knobs, drive modes and evaluation-fault placements against the real '
             'solver; every reported period is substituted back into the submitted equations by an independent '
             'evaluator. Sampling: a clean batch is evidence, not proof.',
        note='trusts Python eval of the submitted right-hand sides and the stated residual bound; chaos()/tick() are '
             'simulator-owned identity functions reached through AddFunction',
        ref='DESIGN.md 5/C02'),
    'C10': dict(
        technique='deterministic simulation: seeded EQN sessions over exogenous spellings / IC classes / horizon '
                  'sources incl. misuse; read-back history check',
        text='What was supplied is what is read back: checked on the recorded trajectory of seeded sessions; misuse '
             'inputs must be rejected with no numbers left behind.',
        note='independent evaluation of exogenous and initial texts; steady-state initialisation off',
        ref='DESIGN.md 5/C10'),
    'C11': dict(
        technique='deterministic simulation: period-by-period drive with snapshots, iteration caps, persistent faults '
                  'and aborts at arbitrary sweeps; bounded-liveness check for contractions',
        text='Outcome of faults and the state left behind are checked against snapshots taken after every solved '
             'period; contraction systems must be solved within the default cap.',
        note='sweeps counted by tick(); contraction factor computed by the generator',
        ref='DESIGN.md 5/C11'),
    'C03': dict(
        technique='deterministic simulation: reduction on/off twin runs of seeded EQN sessions (skipped-fast-path '
                  'configuration twin), trajectory comparison incl. k=0 with tight-tolerance confirmation pass',
        text='The same seeded block is solved with the reduction switched on and off; trajectories must agree '
             '(exactly at k=0). Sampling over alias/decorative/initial-condition structures.',
        note='pure alias cycles excluded; numeric twin threshold with confirmation at tolerance 1e-13',
        ref='DESIGN.md 5/C03'),
    'C15': dict(
        technique='deterministic simulation: steady-state pre-run on the deep copy, then one further period in an '
                  'independent fresh solver from the installed state; copy-isolation snapshot check',
        text='Temporal claim checked by actually advancing one more frozen period from whatever the search installed, '
             'over seeded stable/drifting/oscillating dynamics of both signs; plus before/after isolation snapshot.',
        note='within-period solves at 1e-12 so solver noise is far below the steady tolerance; lag gain <= 1.2',
        ref='DESIGN.md 5/C15'),
    'C06': dict(
        technique='deterministic simulation: seeded histories of cash-flow registrations / exclusions / definitions '
                  'interleaved over several sectors and models; term-sum ledger reference model checked after every op',
        text='Reference-model refinement over seeded operation histories on mutable Sector objects that share the '
             'process-global ID counter and the model-level exclusion list.',
        note='exclusions apply to later registrations; valuations are independent awkward floats (8 per history)',
        ref='DESIGN.md 5/C06'),
    'C12': dict(
        technique='deterministic simulation: seeded AddTerm / AddTermToEquation / create_equation_from_terms '
                  'histories incl. list re-use; term-sum reference model under valuations after every op',
        text='Reference-model refinement over seeded histories on mutable Equation objects and on the caller-owned '
             'term list (aliasing side effect).',
        note='leading expressions restricted to arithmetic; tolerance 1e-12 relative to the sum of |terms|',
        ref='DESIGN.md 5/C12'),
    'C16': dict(
        technique='deterministic simulation: seeded read / render / caller-mutation histories on solved and hand-filled '
                  'result holders; immutable result-store reference model after every op',
        text='Op-by-op comparison of every return value and of the stored results against an immutable reference copy '
             'and the documented slicing rule.',
        note='documented slice rule as stated in the property',
        ref='DESIGN.md 5/C16'),
    'C19': dict(
        technique='deterministic simulation: renders of holders left by successful / aborted solves and AppendValue '
                  'histories; timeseries log captured by the fault-injecting SimFS; table reference model',
        text='Table model checked on what solves (incl. fault-aborted ones) leave behind and on the bytes the file seam '
             'acknowledged under injected open/write/short-write/close failures.',
        note='cell precision per format string; sorted() order for "alphabetically"',
        ref='DESIGN.md 5/C19'),
    'C01': dict(
        technique='deterministic simulation: seeded construction histories of whole economies solved by the real '
                  'library; per-period conservation invariant per currency + double-entry ledger reference model over '
                  'the recorded trajectory',
        text='Conservation is checked as a history invariant on every solved period of seeded economies across all '
             'topology families, plus refinement of every sector\'s dF against the flows the program declares.',
        note='ledger reference model in simfw/econref.py; numeric thresholds with tight-tolerance confirmation pass',
        ref='DESIGN.md 5/C01'),
    'C04': dict(
        technique='deterministic simulation: seeded economies; per-market clearing/allocation identities per period '
                  'against participants derived from the declared program',
        text='Clearing and allocation identities on every period of seeded economies; who participates is decided by '
             'an independent reference model of the declarations, not by the library\'s search.',
        note='reference model in simfw/econref.py; confirmation pass at tolerance 1e-13',
        ref='DESIGN.md 5/C04'),
    'C07': dict(
        technique='deterministic simulation: seeded multi-currency economies with time-varying rates; FX '
                  'intermediary conservation per period; misuse fault = ExternalSector op removed',
        text='Value conservation through the FX intermediary at every period, the FX book against declared sends and '
             'receives, receiver credits, and the refusal clause under the removed-external-sector fault.',
        note='exchange-rate paths keep inverted rates >= 5 percent apart',
        ref='DESIGN.md 5/C07'),
    'C05': dict(
        technique='deterministic simulation: seeded construction histories with name requests at seeded points and '
                  'embedding sites; independent parse of the final text + valuation equality against sector-local forms',
        text='The point in the construction history at which a name is requested (placeholder vs canonical) and the '
             'place it is later embedded are the schedule dimension; the oracle inspects the emitted system only.',
        note='canonical names computed from the op list; independent parser of documented line forms',
        ref='DESIGN.md 5/C05'),
    'C08': dict(
        technique='deterministic simulation: seeded linear extensions of the declaration partial order vs canonical '
                  'order twin; trajectory comparison with tight-tolerance confirmation',
        text='Partial-order schedule search: the same program executed in a seeded dependency-respecting order and in '
             'canonical order must give the same solution.',
        note='dependencies derived from handles used by each op; country declarations keep their order',
        ref='DESIGN.md 5/C08'),
    'C09': dict(
        technique='deterministic simulation: bundled builders advanced in lock-step with closed-form G&L recursions '
                  '(reference model), seeded shock timing and parameters on/off the 4-decimal grid',
        text='Trajectory refinement of a time-stepped machine against a small executable reference model; what is '
             'searched is the timing of shocks relative to lagged terms and the parameter grid. Thinnest fit of this family.',
        note='closed forms per G&L ch.3-4; tolerance 1e-12; relative bound 1e-8',
        ref='DESIGN.md 5/C09'),
    'C18': dict(
        technique='deterministic simulation: renaming twin and co-hosting twin (2-3 economies in one model vs each '
                  'alone) over seeded economies; zone-isolation check on the final text',
        text='Non-interference between economies hosted in one model and invariance under injective renaming, decided '
             'by twin runs of seeded programs.',
        note='government built-in DEM_GOOD/PRIM_BAL excluded when the good is renamed (no constructor parameter)',
        ref='DESIGN.md 5/C18'),
    'C17': dict(
        technique='deterministic simulation: 2-4 sessions (model builds, stepped solvers, code generation, ID burners) '
                  'interleaved at op / solver-period granularity by a seeded scheduler, logging + tracing + fs faults + '
                  'aborting neighbours; bit-identical solo-twin oracle',
        text='Seeded interleavings of independent parties over the process-global state (object ID counter, logger '
             'handle table and cutoff, solver module namespace), with injected I/O faults and aborting neighbours; each '
             'session must observe exactly what it observes alone.',
        note='API-call granularity (no pre-emption: the library makes no thread-safety claim); observations exclude '
             'object IDs and exception messages',
        ref='DESIGN.md 5/C17'),
    'C20': dict(
        technique='deterministic simulation: generated module written through the fault-injecting file seam, loaded and '
                  'stepped in lock-step with the in-process solver; substitute-back oracle per period',
        text='Two implementations of the same stepped machine advanced side by side, the second reached only through a '
             'file write + load; equations substituted back at every period.',
        note='exogenous lists only (as the property states); contractive blocks so both machines converge',
        ref='DESIGN.md 5/C20'),
}

NOT_APPLICABLE = [
    {'property_id': 'C13', 'reason': 'stateless functions of (string, map): no history, shared state, time step or '
                                     'fault for a simulator to schedule; deciding it is input generation (DESIGN.md 6)'},
    {'property_id': 'C14', 'reason': 'a single ParseString call classifying one immutable text; the parser is reset on '
                                     'every call, so there is no history, schedule or fault dimension (DESIGN.md 6)'},
]

ALL = ['C%02d' % i for i in range(1, 21)]


def main():
    checks = []
    for pid in ALL:
        if pid not in CHECKS:
            continue
        c = CHECKS[pid]
        checks.append({
            'property_id': pid,
            'quick_cmd': './run check %s --tier quick' % pid,
            'thorough_cmd': './run check %s --tier thorough' % pid,
            'evidence_file': 'evidence/%s.json' % pid,
            'replay_cmd_template': './run replay {path}',
            'engine': 'simfw',
            'level_claimed': {'category': 'exploration', 'text': c['text'], 'design_ref': c['ref']},
            'level_note': c['note'],
            'technique': c['technique'],
        })
    na = list(NOT_APPLICABLE)
    claimed = set(CHECKS) | set(x['property_id'] for x in na)
    for pid in ALL:
        if pid not in claimed:
            na.append({'property_id': pid, 'reason': 'check not built yet in this revision of /verif (planned, see '
                                                     'DESIGN.md 5); not claimed until its check exists'})
    man = {
        'version': 1,
        'setup_cmd': '/venv/bin/python -c "import sys; sys.path.insert(0, \'/repo\'); import sfc_models" '
                     '2>/dev/null && mkdir -p out evidence',
        'hooks': {
            'guard': 'SFC_MODELS_VERIF',
            'enable': 'none needed: every seam (module-level open(), EquationSolver.AddFunction, public stepping API) '
                      'is rebound from the harness; /repo carries no hook code',
            'baseline_off_cmd': BASELINE,
            'source_commits': [],
            'add_only': True,
        },
        'engines': [{'name': 'simfw', 'path': 'simfw/', 'serves_properties': sorted(CHECKS),
                     'kind_free_text': 'hand-written deterministic simulator: seeded session generator, op '
                                       'interpreter over the real library, fault injectors (chaos(), SimFS), ddmin '
                                       'minimiser, fresh-interpreter replay; one block of runs = one forked process '
                                       'history, violations that need earlier runs of their process are replayed with '
                                       'the shrunk sequence of those runs'}],
        'checks': checks,
        'not_applicable': na,
        'notes': 'Python 3.12 at /venv/bin/python, standard library only. ./run replay <file> re-executes a recorded '
                 'case. known_findings.json lists open and fixed findings.',
    }
    with open(os.path.join(HERE, 'MANIFEST.json'), 'w') as f:
        json.dump(man, f, indent=1)
    print('MANIFEST.json written: %d checks, %d not applicable' % (len(checks), len(na)))


if __name__ == '__main__':
    main()
