"""
Self-tests of the machinery itself.

  ./run selftest determinism [--props C02,C10] [--runs N]
      every run seed executed in two fresh interpreters with different PYTHONHASHSEED and a
      different worker count; batch digests and per-run digests must agree.

  ./run selftest mutants [--props C01,...]
      each patch in selftest/mutants/ (and seeded/*/patch.diff) is applied to a scratch copy of
      /repo outside /repo and /verif, the quick check of the properties it names is run against
      the copy (VERIF_REPO), and a VIOLATION is expected. Copies are removed afterwards.
"""
import json
import os
import shutil
import subprocess
import sys
import tempfile
import time

from . import core, driver

VERIF = driver.VERIF_DIR


def run_rows(pid, tier, seed, runs, workers, hashseed):
    """Run a batch in a fresh interpreter and return [(index, digest, sig, n_viol)]."""
    code = (
        "import sys, json\n"
        "sys.path.insert(0, %r)\n"
        "from simfw import core, driver\n"
        "import concurrent.futures, multiprocessing\n"
        "core.import_sut()\n"
        "pid, tier, seed, runs, workers = %r, %r, %d, %d, %d\n"
        "tasks = [(pid, tier, seed, s, min(runs, s + 20), []) for s in range(0, runs, 20)]\n"
        "ctx = multiprocessing.get_context('fork')\n"
        "rows = []\n"
        "with concurrent.futures.ProcessPoolExecutor(max_workers=workers, mp_context=ctx) as pool:\n"
        "    for r in pool.map(driver.run_task, tasks):\n"
        "        if not r['ok']:\n"
        "            print(json.dumps({'error': r['error']})); sys.exit(3)\n"
        "        rows.extend(r['rows'])\n"
        "rows.sort(key=lambda r: r['index'])\n"
        "print(json.dumps([[r['index'], r['digest'], r['sig'], len(r['violations'])] for r in rows]))\n"
    ) % (VERIF, pid, tier, seed, runs, workers)
    env = dict(os.environ)
    env['PYTHONHASHSEED'] = str(hashseed)
    p = subprocess.run([sys.executable, '-W', 'ignore', '-c', code], cwd=VERIF, env=env, stdout=subprocess.PIPE,
                       stderr=subprocess.PIPE, timeout=3600)
    if p.returncode != 0:
        raise core.HarnessError('determinism batch failed: ' + p.stdout.decode()[-500:] + p.stderr.decode()[-1500:])
    return json.loads(p.stdout.decode().strip().split('\n')[-1])


def determinism(props, runs):
    bad = 0
    report = {}
    for pid in props:
        mod = driver.load_prop(pid)
        n = runs or max(60, min(2000, mod.RUNS['quick'] // 4))
        t0 = time.time()
        a = run_rows(pid, 'quick', 777, n, 16, 0)
        b = run_rows(pid, 'quick', 777, n, 5, 12345)
        diff = [(x[0], x[1], y[1]) for x, y in zip(a, b) if x != y]
        report[pid] = {'runs': n, 'differences': len(diff), 'wall_s': round(time.time() - t0, 1)}
        if diff or len(a) != len(b):
            bad += 1
            print('NONDETERMINISTIC property=%s runs=%d differing=%d first=%r' % (pid, n, len(diff), diff[0:2]))
        else:
            print('deterministic property=%s runs=%d (2 interpreters, PYTHONHASHSEED 0/12345, workers 16/5) %.1fs'
                  % (pid, n, time.time() - t0))
    os.makedirs(os.path.join(VERIF, 'out'), exist_ok=True)
    with open(os.path.join(VERIF, 'out', 'selftest_determinism.json'), 'w') as f:
        json.dump(report, f, indent=1)
    return 1 if bad else 0


def scratch_copy(repo='/repo'):
    base = tempfile.mkdtemp(prefix='sfc_verif_mut_', dir='/tmp')
    dst = os.path.join(base, 'repo')
    shutil.copytree(repo, dst, ignore=shutil.ignore_patterns('.git', '__pycache__', '*.pyc', 'docs'))
    return base, dst


def list_mutants():
    out = []
    mdir = os.path.join(VERIF, 'selftest', 'mutants')
    if os.path.isdir(mdir):
        for fn in sorted(os.listdir(mdir)):
            if fn.endswith('.patch'):
                meta = {}
                mp = os.path.join(mdir, fn[:-6] + '.json')
                if os.path.exists(mp):
                    meta = json.load(open(mp))
                out.append({'name': fn[:-6], 'patch': os.path.join(mdir, fn), 'props': meta.get('props', []),
                            'runs': meta.get('runs'), 'what': meta.get('what', '')})
    sdir = os.path.join(VERIF, 'seeded')
    if os.path.isdir(sdir):
        for dn in sorted(os.listdir(sdir)):
            pp = os.path.join(sdir, dn, 'patch.diff')
            mp = os.path.join(sdir, dn, 'meta.json')
            if os.path.exists(pp) and os.path.exists(mp):
                meta = json.load(open(mp))
                out.append({'name': 'seeded/' + dn, 'patch': pp, 'props': meta.get('detected_by', meta.get('props', [])),
                            'runs': meta.get('runs'), 'what': meta.get('what', '')})
    return out


def mutants(props, only=None):
    results = []
    failed = 0
    for mu in list_mutants():
        targets = [p for p in mu['props'] if not props or p in props]
        if only and only not in mu['name']:
            continue
        if not targets:
            continue
        base, dst = scratch_copy()
        try:
            p = subprocess.run(['patch', '-p1', '-s', '-i', mu['patch']], cwd=dst, stdout=subprocess.PIPE,
                               stderr=subprocess.STDOUT)
            if p.returncode != 0:
                print('MUTANT-PATCH-FAILED %s: %s' % (mu['name'], p.stdout.decode()[-300:]))
                failed += 1
                continue
            for pid in targets:
                env = dict(os.environ)
                env['VERIF_REPO'] = dst
                env['VERIF_EVIDENCE_DIR'] = os.path.join(VERIF, 'out', 'selftest_evidence')
                env['PYTHONHASHSEED'] = '0'
                cmd = [sys.executable, '-W', 'ignore', '-m', 'simfw.cli', 'check', pid, '--tier', 'quick']
                if mu.get('runs'):
                    cmd += ['--runs', str(mu['runs'])]
                t0 = time.time()
                q = subprocess.run(cmd, cwd=VERIF, env=env, stdout=subprocess.PIPE, stderr=subprocess.STDOUT, timeout=1800)
                out = q.stdout.decode(errors='replace')
                caught = q.returncode == 1 and 'VIOLATION property=' + pid in out
                sigs = [ln.strip() for ln in out.split('\n') if ln.strip().startswith('kind=')]
                results.append({'mutant': mu['name'], 'property': pid, 'caught': caught, 'exit': q.returncode,
                                'wall_s': round(time.time() - t0, 1), 'signatures': [s[0:160] for s in sigs[0:3]]})
                print('%s mutant=%s property=%s exit=%d %.0fs %s' % ('CAUGHT' if caught else 'MISSED', mu['name'], pid,
                                                                      q.returncode, time.time() - t0,
                                                                      (sigs[0][0:140] if sigs else out[-300:].replace('\n', ' | '))))
                if not caught:
                    failed += 1
        finally:
            shutil.rmtree(base, ignore_errors=True)
    os.makedirs(os.path.join(VERIF, 'out'), exist_ok=True)
    with open(os.path.join(VERIF, 'out', 'selftest_mutants.json'), 'w') as f:
        json.dump(results, f, indent=1)
    print('mutants: %d checked, %d missed' % (len(results), failed))
    return 1 if failed else 0


def main(a):
    props = [p.strip().upper() for p in a.props.split(',') if p.strip()]
    if a.what == 'determinism':
        if not props:
            props = sorted(fn[:-3].upper() for fn in os.listdir(os.path.join(VERIF, 'simfw', 'props'))
                           if fn.startswith('c') and fn.endswith('.py'))
        return determinism(props, a.runs)
    return mutants(props, only=getattr(a, 'only', None))
