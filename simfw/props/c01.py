"""C01 - every generated model is stock-flow consistent in each currency."""
from .. import core, econ, econgen, econprops

ID = 'C01'
RUNS = {'quick': 800, 'thorough': 60000}
WALL_CAP = {'quick': 70, 'thorough': 1800}
BLOCK = 10
RULE = ('runs = seeded ECON sessions: programs over the public object API drawn from the topology families (closed, '
        'with money/deposit markets, treasury+central bank, capitalists and profit margin, federated zone with central '
        'region and cross-region suppliers, 2-3 currency zones with external sector / gifts / imports / gold, '
        'time-varying non-unit exchange rates), random parameters, exogenous paths with jumps, with and without '
        'initial stocks, solver knobs (tolerance, cap, reduction, tracing); solved by the real library. Oracle per '
        'period: (1) sum of dF over the sectors of each currency zone + FX position = 0, located through the public '
        'object API, (2) each sector\'s dF equals the signed sum of the flows the program declares on it (double-entry '
        'ledger reference model). Candidates above 20*tol are re-run at tolerance 1e-13 and kept only if > 1e-7 '
        'relative. distinct = distinct program structure signatures among runs that solved')
COMPONENTS = {'real': ['sfc_models.models / sector / sector_definitions / external / equation / equation_parser / '
                       'equation_solver (everything between the object API and the solved series)'], 'stub': []}
ASSUMPTIONS = ['ledger reference model (simfw/econref.py) encodes which flows each sector class declares',
               'periods k>=2 when the program imposes initial conditions, k>=1 otherwise',
               'a zone has at most one sector with the issuer / tax-recipient code (well-formedness)']

WHICH = ('conservation', 'ledger')
list_paths = econprops.list_paths
simplifiers = econprops.simplifiers
valid = econprops.valid_program


def generate(seed, tier):
    S = core.Streams(seed)
    tight = S['swarm'].random() < 0.7
    ops, info = econgen.gen_program(seed, T=(S['knobs'].randint(2, 10) if tier == 'thorough' else None), tight=tight, on_grid=S['swarm'].random() < 0.7)
    if S['swarm'].random() < 0.4:
        # not only the generator's canonical declaration order: a seeded dependency-respecting order
        from . import c08
        order = c08.linear_extension(ops, S['schedule'])
        ops = [ops[i] for i in order]
    return {'kind': 'ECON', 'family': info['family'], 'ops': ops}


def execute(case):
    viol, stats, sess = econprops.numeric_check(case, WHICH, ID)
    solved = stats.get('main_outcome', {}).get('main:ok', 0) > 0
    return {'violations': viol, 'stats': stats, 'sig': econprops.program_sig(case, sess),
            'digest': core.digest([[(i, n, o) for i, n, o in sess.log],
                                   {m: econ.series_of(sess, m) for m in econprops.models_in(case['ops']) if m in sess.H}]),
            'nontrivial': solved}
