"""C19 - tab-delimited output is a faithful table of the results."""
import warnings

from .. import core, eqn, eqncases
from ..blockgen import gen_block, render
from ..simfs import SimFS, SeamPatch

ID = 'C19'
RUNS = {'quick': 12000, 'thorough': 800000}
WALL_CAP = {'quick': 50, 'thorough': 1500}
BLOCK = 100
RULE = ('runs = seeded READ sessions rendering (i) holders after successful solves, (ii) holders left behind by solves '
        'aborted by injected/natural faults, (iii) step-trace holders, (iv) holders filled by random AppendValue '
        'histories (ints, floats of any magnitude and sign, ragged lengths, priority names present or not), with format '
        'strings from a pool, and (v) the text Model.main(base_file_name) sends to the "timeseries" log through SimFS, '
        'fault-free and under injected open/write/short-write/close failures; oracle = table model (header order, '
        'row count = shortest series, every cell parses back to the stored value at the format\'s precision, '
        'horizon+1 rows after success, acknowledged bytes == rendering or a prefix under short write). distinct = '
        'distinct (source kind, name set shape, lengths shape, format, fault) among runs that rendered >= 1 table')
COMPONENTS = {'real': ['sfc_models.utils.TimeSeriesHolder (GetSeriesList, AppendValue, GenerateCSVtext)',
                       'EquationSolver.GenerateCSVtext', 'Model.main + Logger (timeseries log)', 'gl_book.chapter3.SIM builder'],
              'stub': ['open() -> SimFS (in-memory, fault injecting)', 'chaos() via AddFunction for aborted solves']}
ASSUMPTIONS = ['"alphabetically" is Python string order (the documented sort())',
               'cell precision: %.5g 5e-5 rel, %.12g 5e-12 rel, %r exact, %10.3f 5.1e-4 abs, %e 5e-7 rel']

PRIORITY = ('iteration', 'iteration_error', 'iteration_abs_change', 'k', 't')
FMTS = ['%.5g', '%.12g', '%r', '%10.3f', '%e']
NAMEPOOL = ['k', 't', 'iteration', 'iteration_error', 'iteration_abs_change', 'GOOD__SUP_GOOD', 'HH__F', 'a', 'B', '_x',
            'Z9', 'alpha', 'K', 'T', 'kk', 'tt', 'Iteration']


def rand_value(rng):
    r = rng.random()
    if r < 0.2:
        return rng.randint(-1000, 1000)
    if r < 0.3:
        return rng.choice([0, 0.0, -0.0, 1, -1, 10 ** 12, -10 ** 15, 2 ** 70])
    if r < 0.5:
        return rng.uniform(-1, 1) * 10 ** rng.randint(-12, 12)
    if r < 0.55:
        return rng.choice([1e-300, -1e300, 5e-324, 1.7976931348623157e308, 0.1 + 0.2, 1.0 / 3.0, 123456.5, 99999.5])
    return round(rng.uniform(-500, 500), rng.randint(0, 6))


def generate(seed, tier):
    S = core.Streams(seed)
    rng = S['ops']
    r = S['swarm'].random()
    fmt = rng.choice(FMTS + ['%.5g'])
    if r < 0.45:
        names = rng.sample(NAMEPOOL, rng.randint(1, 8))
        base = rng.randint(0, 6)
        ragged = rng.random() < 0.5
        appends = []
        for n in names:
            ln = base + (rng.randint(0, 3) if ragged else 0)
            for _ in range(ln):
                appends.append([n, rand_value(rng)])
        if rng.random() < 0.5:
            rng.shuffle(appends)       # interleaved AppendValue history
        # the holder is a dict: series are also stored by item assignment, update() and removed with del / pop;
        # tables are rendered in between (a render must always reflect the holder as it is now)
        hist = [['append', n, x] for n, x in appends]
        if rng.random() < 0.6:
            extra = []
            for _ in range(rng.randint(1, 5)):
                r2 = rng.random()
                if r2 < 0.4:
                    extra.append(['render'])
                elif r2 < 0.65:
                    extra.append(['setitem', rng.choice(NAMEPOOL), [rand_value(rng) for _ in range(rng.randint(0, 5))]])
                elif r2 < 0.8:
                    extra.append(['del', rng.choice(names)])
                elif r2 < 0.86:
                    extra.append(['update', rng.choice(NAMEPOOL), [rand_value(rng) for _ in range(rng.randint(1, 4))]])
                elif r2 < 0.92:
                    extra.append(['rename', rng.choice(names), rng.choice(NAMEPOOL)])
                elif r2 < 0.945:
                    extra.append(['names_mutate', rng.choice(['sort', 'reverse', 'clear', 'append'])])
                elif r2 < 0.97:
                    # a reader asks for a series by name (it may not exist): reading is not writing
                    extra.append(['lookup', rng.choice(NAMEPOOL + ['no_such_series', 'GOV__FISCAL_BALANCE']),
                                  rng.choice(['item', 'item', 'get', 'in'])])
                else:
                    extra.append(['append', rng.choice(NAMEPOOL), rand_value(rng)])
            for e in extra:
                hist.insert(rng.randint(0, len(hist)), e)
        return {'kind': 'READ', 'source': 'append', 'appends': hist, 'fmt': fmt, 'names': names,
                'holder_name': rng.choice(['k', 'iteration'])}
    if r < 0.8:
        case = eqncases.gen_case(seed, [('contractive', 3), ('chaos', 3), ('hazard', 2), ('cap_small', 1), ('expansive', 1)], tier)
        case['kind'] = 'READ'
        case['source'] = 'solve'
        case['fmt'] = fmt
        if rng.random() < 0.1 and case.get('profile') == 'contractive':
            # horizon set on the solver object (overrides the block's line); 0 means: the k=0 row only
            case['knobs']['maxtime_attr'] = rng.choice([0, 0, 1])
        case['render_trace'] = rng.random() < 0.4
        if case['render_trace'] and case['block'].get('maxtime'):
            case['knobs']['trace_step'] = rng.randint(1, case['block']['maxtime'])
        return case
    # (v) the timeseries log written by Model.main through the file seam
    faults = []
    if rng.random() < 0.6:
        kind = rng.choice(['fs_open_fail', 'fs_write_fail', 'fs_short_write', 'fs_close_fail'])
        target = rng.choice(['_out.txt', '_out.txt', '_log.txt', '_eqn.txt'])
        faults.append({'kind': kind, 'path_contains': target, 'nth': rng.choice([1, 1, 2, 5])})
    mt = rng.randint(1, 6)
    reads = []
    if rng.random() < 0.5:
        # between the run and a second rendering the results are read through the Model's convenience accessor
        for _ in range(rng.randint(1, 4)):
            reads.append({'series': rng.choice(['k', 't', 'HH__F', 'GOOD__SUP_GOOD', 'GOV__FISCAL_BALANCE']),
                          'cutoff': rng.choice([None, 0, 1, mt, mt, mt + 2]), 'suppress': rng.random() < 0.6,
                          'via_attr': rng.random() < 0.5})
    return {'kind': 'READ', 'source': 'mainlog', 'fmt': '%.5g', 'maxtime': mt, 'faults': faults, 'reads': reads,
            'builder': rng.choice(['SIM', 'SIMEX1']), 'base': rng.choice(['run', 'out/model_x', 'a.b'])}


def list_paths(case):
    if case.get('source') == 'append':
        return [('appends',)]
    if case.get('source') == 'solve':
        return eqncases.list_paths(case)
    return [('faults',)]


def simplify(case):
    if case.get('fmt') != '%.5g':
        c = core.deep_copy(case)
        c['fmt'] = '%.5g'
        yield c
    if case.get('source') == 'solve':
        for c in eqncases.simplify_knobs(case):
            yield c


simplifiers = (simplify,)


def valid(case):
    if case.get('source') == 'solve':
        return eqncases.valid(case)
    return True


def cell_ok(fmt, cell, value):
    try:
        got = float(cell.strip())
    except ValueError:
        return False
    v = float(value)
    if v != v:
        return got != got
    if v in (float('inf'), float('-inf')):
        return got == v
    if got in (float('inf'), float('-inf')) and abs(v) > 1.797e308:
        return (got > 0) == (v > 0)      # rounding up at the top of the double range
    if fmt == '%r':
        return got == v and (not isinstance(value, int) or cell.strip() == repr(value))
    if fmt == '%10.3f':
        return abs(got - v) <= 5.1e-4 + 1e-12 * abs(v)
    rel = {'%.5g': 5.0e-5, '%.12g': 5.0e-12, '%e': 5.0e-7}[fmt]
    return abs(got - v) <= rel * abs(v) + 5e-324


def check_table(text, series, fmt, what):
    """The table model. series: dict name -> list. Returns a violation or None."""
    if len(series) == 0:
        if text != '':
            return core.violation(ID, 'table-nonempty-for-no-series', 'table-nonempty-for-no-series', text=text[0:100])
        return None
    if not text.endswith('\n'):
        return core.violation(ID, 'table-malformed', 'table-malformed:no-final-newline', what=what)
    lines = text[:-1].split('\n')
    header = lines[0].split('\t')
    names = sorted(series.keys())
    want_header = [p for p in PRIORITY if p in series] + [n for n in names if n not in PRIORITY]
    if header != want_header:
        return core.violation(ID, 'header-wrong', 'header-wrong', what=what, got=header, want=want_header)
    n_rows = min(len(v) for v in series.values())
    rows = lines[1:]
    if len(rows) != n_rows:
        return core.violation(ID, 'row-count-wrong', 'row-count-wrong', what=what, got=len(rows), want=n_rows,
                              lengths={k: len(series[k]) for k in names[0:8]})
    for i, row in enumerate(rows):
        cells = row.split('\t')
        if len(cells) != len(header):
            return core.violation(ID, 'row-width-wrong', 'row-width-wrong', what=what, row=i, got=len(cells), want=len(header))
        for name, cell in zip(header, cells):
            if not cell_ok(fmt, cell, series[name][i]):
                return core.violation(ID, 'cell-wrong', 'cell-wrong:' + fmt, what=what, series=name, row=i, cell=cell,
                                      value=series[name][i])
    return None


def execute(case):
    core.import_sut()
    from sfc_models.utils import TimeSeriesHolder, Logger
    viol = []
    stats = {'runs': 1, 'tables': 0, 'cells': 0, 'source': {case['source']: 1}, 'probes': {}, 'faults_fired': {}}
    fmt = case.get('fmt', '%.5g')
    shape = []
    if case['source'] == 'append':
        h = TimeSeriesHolder(case.get('holder_name', 'k'))
        ref = {}
        for step in case['appends']:
            if step[0] not in ('append', 'setitem', 'update', 'del', 'render', 'rename', 'names_mutate', 'lookup'):   # old replay format [name, value]
                step = ['append', step[0], step[1]]
            kind = step[0]
            if kind == 'append':
                h.AppendValue(step[1], step[2])
                ref.setdefault(step[1], []).append(step[2])
            elif kind == 'setitem':
                h[step[1]] = list(step[2])
                ref[step[1]] = list(step[2])
                stats['probes']['series_stored_by_item_assignment'] = 1
            elif kind == 'update':
                h.update({step[1]: list(step[2])})
                ref[step[1]] = list(step[2])
            elif kind == 'del':
                if step[1] in ref:
                    del h[step[1]]
                    del ref[step[1]]
            elif kind == 'rename':
                if step[1] in ref and step[2] not in ref:
                    h[step[2]] = h.pop(step[1])
                    ref[step[2]] = ref.pop(step[1])
                    stats['probes']['series_renamed'] = 1
            elif kind == 'lookup':
                try:
                    if step[2] == 'item':
                        h[step[1]]
                    elif step[2] == 'get':
                        h.get(step[1])
                    else:
                        step[1] in h
                except KeyError:
                    pass
                if step[1] not in ref:
                    stats['probes']['unknown_series_looked_up'] = 1
            elif kind == 'names_mutate':
                # the caller plays with the list of names it was handed
                lst = h.GetSeriesList()
                if step[1] == 'sort':
                    lst.sort()
                elif step[1] == 'reverse':
                    lst.reverse()
                elif step[1] == 'clear':
                    del lst[:]
                else:
                    lst.append('bogus')
                stats['probes']['returned_name_list_mutated'] = 1
            elif kind == 'render':
                try:
                    mid = h.GenerateCSVtext(fmt)
                except Exception as ex:   # noqa
                    viol.append(core.violation(ID, 'render-raised', 'render-raised:' + type(ex).__name__, error=str(ex)[0:100]))
                    break
                stats['tables'] += 1
                stats['probes']['rendered_mid_history'] = 1
                v = check_table(mid, ref, fmt, 'mid-history')
                if v:
                    viol.append(v)
                    break
        txt = ''
        if not viol:
            try:
                txt = h.GenerateCSVtext(fmt)
            except Exception as ex:   # noqa
                viol.append(core.violation(ID, 'render-raised', 'render-raised:' + type(ex).__name__, error=str(ex)[0:100]))
        stats['tables'] += 1
        v = check_table(txt, ref, fmt, 'append-history') if not viol else None
        if v:
            viol.append(v)
        if ref and len(set(len(s) for s in ref.values())) > 1:
            stats['probes']['ragged_holder_rendered'] = 1
        if not ref:
            stats['probes']['empty_holder'] = 1
        if not viol and txt != h.GenerateCSVtext(fmt):
            viol.append(core.violation(ID, 'rendering-not-repeatable', 'rendering-not-repeatable'))
        shape = [sorted(ref), sorted(len(s) for s in ref.values()), fmt, [st[0] for st in case['appends'] if st[0] != 'append']]
    elif case['source'] == 'solve':
        rec = eqn.run_block(case['block'], case['knobs'], case.get('faults', ()), case.get('drive', 'mono'))
        solver = rec['solver']
        txt = solver.GenerateCSVtext(fmt)
        stats['tables'] += 1
        series = {k: list(v) for k, v in solver.TimeSeries.items()}
        v = check_table(txt, series, fmt, 'after-solve:' + rec['outcome'])
        if v:
            viol.append(v)
        elif rec['outcome'] == 'ok':
            T = eqn.horizon_of(case['block'], case['knobs'])
            n_rows = len(txt.split('\n')) - 2
            if series and n_rows != T + 1:
                viol.append(core.violation(ID, 'row-count-wrong', 'row-count-wrong:after-success', got=n_rows, want=T + 1))
        else:
            stats['probes']['rendered_after_failed_solve'] = 1
            if series and len(set(len(s) for s in series.values())) > 1:
                stats['probes']['ragged_holder_rendered'] = 1
        if case.get('render_trace') and not viol:
            tr = solver.TimeSeriesStepTrace
            ttxt = tr.GenerateCSVtext(fmt)
            tser = {k: list(v) for k, v in tr.items()}
            if tser:
                stats['tables'] += 1
                stats['probes']['step_trace_rendered'] = 1
                v = check_table(ttxt, tser, fmt, 'step-trace')
                if v:
                    viol.append(v)
        stats['faults_fired'] = dict(rec['fired'])
        shape = [rec['outcome'], sorted(len(s) for s in series.values())[0:2], fmt, bool(case.get('render_trace'))]
    else:
        import sfc_models.gl_book.chapter3 as ch3
        fs = SimFS(case.get('faults', ()))
        outcome = 'ok'
        with SeamPatch(fs):
            Logger.cleanup()
            Logger.log_file_handles = {}
            builder = getattr(ch3, case['builder'])('C1')
            model = builder.build_model()
            model.MaxTime = case['maxtime']
            try:
                with warnings.catch_warnings():
                    warnings.simplefilter('ignore')
                    model.main(case['base'])
            except Exception as ex:   # noqa
                outcome = type(ex).__name__
                if not fs.fired:
                    viol.append(core.violation(ID, 'main-failed-without-fault', 'main-failed-without-fault:' + outcome,
                                               error=str(ex)[0:200]))
            finally:
                try:
                    Logger.cleanup()
                except Exception:   # noqa
                    Logger.log_file_handles = {}
        stats['faults_fired'] = {k: fs.fired.count(k) for k in set(fs.fired)}
        path = case['base'] + '_out.txt'
        want = model.EquationSolver.GenerateCSVtext()
        series = {k: list(v) for k, v in model.EquationSolver.TimeSeries.items()}
        if not viol and series:
            stats['tables'] += 1
            v = check_table(want, series, '%.5g', 'main-log')
            if v:
                viol.append(v)
            acked = fs.acked.get(path)
            disk = fs.files.get(path)
            hit_out = any(('_out.txt' in f.get('path_contains', '')) and f.get('done') for f in fs.faults)
            if acked is None:
                if not fs.fired:
                    viol.append(core.violation(ID, 'timeseries-log-missing', 'timeseries-log-missing', files=sorted(fs.files)))
            elif not hit_out and outcome == 'ok' and acked != want:
                viol.append(core.violation(ID, 'timeseries-log-differs', 'timeseries-log-differs', acked=acked[0:200], want=want[0:200]))
            elif acked != '' and not want.startswith(acked) and acked != want:
                viol.append(core.violation(ID, 'timeseries-log-not-a-prefix', 'timeseries-log-not-a-prefix', acked=acked[0:200], want=want[0:200]))
            elif disk is not None and disk != '' and not want.startswith(disk):
                viol.append(core.violation(ID, 'timeseries-log-not-a-prefix', 'timeseries-log-not-a-prefix:disk', disk=disk[0:200], want=want[0:200]))
            if outcome == 'ok' and not viol and case.get('reads'):
                for rd in case['reads']:
                    model.TimeSeriesSupressTimeZero = bool(rd['suppress'])
                    try:
                        if rd.get('via_attr'):
                            model.TimeSeriesCutoff = rd['cutoff']
                            model.GetTimeSeries(rd['series'])
                        else:
                            model.TimeSeriesCutoff = None
                            model.GetTimeSeries(rd['series'], cutoff=rd['cutoff'])
                    except KeyError:
                        pass
                again = model.EquationSolver.GenerateCSVtext()
                stats['tables'] += 1
                stats['probes']['rendered_again_after_reads'] = 1
                if again != want:
                    viol.append(core.violation(ID, 'table-changed-by-reading', 'table-changed-by-reading',
                                               first=want[0:200], again=again[0:200], reads=case['reads']))
            if outcome == 'ok' and not fs.fired:
                if len(Logger.log_file_handles) != 0:
                    viol.append(core.violation(ID, 'log-handles-left-open', 'log-handles-left-open'))
                stats['probes']['main_log_fault_free'] = 1
        shape = [case['builder'], case['maxtime'], outcome, sorted(fs.fired)]
    if viol is None:
        viol = []
    return {'violations': viol, 'stats': stats, 'sig': core.digest([case['source'], shape]),
            'digest': core.digest([case['source'], shape, len(viol)]), 'nontrivial': stats['tables'] >= 1}
