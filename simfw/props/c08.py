"""C08 - results do not depend on the order in which sectors are declared."""
from .. import core, econ, econgen, econprops

ID = 'C08'
RUNS = {'quick': 600, 'thorough': 30000}
WALL_CAP = {'quick': 75, 'thorough': 1800}
BLOCK = 6
RULE = ('runs = seeded ECON programs turned into a dependency graph (an object exists before it is passed to another '
        'op; ops on one object keep their order; country declarations keep their order); the seeded scheduler emits a '
        'random linear extension (sector declarations permuted, ops of different sectors interleaved) and the '
        'generator\'s canonical order is the twin; both are built and solved by the real library. Oracle: same '
        'variable set, same success/failure class, series equal within the twin bound (candidates confirmed at '
        'tolerance 1e-13). distinct = distinct (program structure, schedule vector) pairs among pairs where both '
        'twins solved and the schedule differs from the canonical one')
COMPONENTS = {'real': ['whole model-building and solving stack'], 'stub': []}
ASSUMPTIONS = ['only dependency-respecting orders are generated; country / external-sector declarations keep their order',
               'equal up to the twin bound (term order changes floating-point summation order)']


def dependencies(ops):
    """deps[i] = set of indices that must precede op i."""
    creator = {}
    last_touch = {}
    name_saver = {}
    deps = [set() for _ in ops]
    last_country_op = None
    import re
    for i, op in enumerate(ops):
        refs = []
        for key in ('model', 'country', 'sector', 'market', 'supplier', 'business', 'obj', 'source', 'target',
                    'treasury', 'ref', 'gold'):
            v = op.get(key)
            if isinstance(v, str):
                refs.append(v)
        refs += list(op.get('markets', []))
        for r in refs:
            if r in creator:
                deps[i].add(creator[r])
        for key in ('eqn', 'term'):
            if isinstance(op.get(key), str):
                for nm in re.findall(r'\{name:([A-Za-z0-9_]+)\}', op[key]):
                    if nm in name_saver:
                        deps[i].add(name_saver[nm])
        for c, e in op.get('weights', []) if op['op'] == 'AssetWeighting' else []:
            for nm in re.findall(r'\{name:([A-Za-z0-9_]+)\}', e):
                if nm in name_saver:
                    deps[i].add(name_saver[nm])
        is_ctor = 'id' in op and op['op'] not in ('GetSector',)
        if op['op'] in ('Model', 'Country', 'Region', 'ExternalSector'):
            if last_country_op is not None:
                deps[i].add(last_country_op)
            last_country_op = i
        if op['op'] in ('main',) or (op['op'] == 'SetAttr' and op.get('obj') in creator and
                                     ops[creator[op['obj']]]['op'] == 'Model'):
            deps[i].update(range(0, i))
        # ops that touch an existing object keep their relative order on that object
        touched = [r for r in refs if r in creator and ops[creator[r]]['op'] not in ('Model', 'Country', 'Region', 'ExternalSector')]
        if not is_ctor or op['op'] == 'GetSector':
            for r in touched:
                if r in last_touch:
                    deps[i].add(last_touch[r])
            for r in touched:
                last_touch[r] = i
        if op['op'] == 'AddInitialCondition' and op.get('by') == 'code':
            # refers to a sector by full code: keep after everything declared so far in the canonical order
            deps[i].update(j for j in range(i) if 'id' in ops[j])
        if 'id' in op:
            creator[op['id']] = i
            last_touch[op['id']] = i
        if op['op'] == 'GetVariableName':
            name_saver[op['save_as']] = i
        deps[i].discard(i)
    return deps


def linear_extension(ops, rng):
    deps = dependencies(ops)
    n = len(ops)
    done = set()
    order = []
    remaining = set(range(n))
    while remaining:
        ready = sorted(i for i in remaining if deps[i] <= done)
        if not ready:
            raise core.HarnessError('dependency cycle in ECON program')
        # bias: prefer to move constructors of sectors around (that is what the property is about)
        i = ready[rng.randrange(len(ready))]
        order.append(i)
        done.add(i)
        remaining.discard(i)
    return order


def add_late_exclusions(ops, rng):
    """Configuration calls after the sectors exist: Model.AddCashFlowIncomeExclusion (public) for flows that the markets
    and the tax flow book when the model is generated. Part of the declarations, so both twins get them."""
    first_late = len(ops)
    for i, o in enumerate(ops):
        if o['op'] == 'main' or o['op'] == 'SetAttr':
            first_late = i
            break
    cands = []
    for o in ops[0:first_late]:
        if o['op'] in ('Household', 'HouseholdWithExpectations'):
            cands.append((o['id'], 'SUP_' + (o.get('labour') or 'LAB')))
            cands.append((o['id'], 'T'))
        elif o['op'] == 'Capitalists':
            cands.append((o['id'], 'T'))
        elif o['op'] in ('FixedMarginBusiness', 'FixedMarginBusinessSub', 'FixedMarginBusinessMultiOutput'):
            cands.append((o['id'], 'DEM_' + (o.get('labour') or 'LAB')))
        elif o['op'] in ('ConsolidatedGovernment', 'Treasury'):
            cands.append((o['id'], 'T'))
    rng.shuffle(cands)
    for sid, name in cands[0:rng.randint(1, 2)]:
        ops.insert(first_late, {'op': 'Exclude', 'sector': sid, 'name': name})
        first_late += 1


def generate(seed, tier):
    S = core.Streams(seed)
    fam = S['swarm'].choice(['closed', 'closed', 'closed_fin', 'pc', 'capitalists', 'federated', 'multi_currency',
                             'multi_currency_supply'])
    names = {}
    if S['swarm'].random() < 0.4:
        # non-default good / labour names (through the constructors' name parameters)
        for k, v in (('LAB', 'WORK'), ('GOOD', 'WIDGET')):
            if S['swarm'].random() < 0.6:
                names[k] = v
    ops, info = econgen.gen_program(seed, family=fam, tight=S['swarm'].random() < 0.8, T=S['knobs'].randint(2, 4),
                                    names=names)
    if S['swarm'].random() < 0.3:
        add_late_exclusions(ops, S['swarm'])
    ctry = [o for o in ops if o['op'] in ('Country', 'Region')]
    hhs = [o for o in ops if o['op'] in ('Household', 'HouseholdWithExpectations')]
    if len(ctry) == 1 and not any(o['op'] == 'ExternalSector' for o in ops) and hhs and S['swarm'].random() < 0.25:
        # codes are case sensitive: a second sector whose code differs from the household's by case only, and an
        # initial condition addressed to it by its code (a string look-up at main() time)
        hh = hhs[0]
        twin = hh['code'].lower() if hh['code'].lower() != hh['code'] else hh['code'].upper()
        at = [i for i, o in enumerate(ops) if o is hh][0] + 1
        late = [i for i, o in enumerate(ops) if o['op'] in ('main', 'SetAttr')][0]
        ops.insert(at, {'op': 'Sector', 'id': 'twin0', 'country': hh['country'], 'code': twin, 'has_F': True})
        ops.insert(late + 1, {'op': 'AddInitialCondition', 'by': 'code', 'model': info['model'], 'fullcode': twin,
                              'var': 'F', 'value': float(S['swarm'].randint(5, 60))})
    for i, op in enumerate(ops):
        op['u'] = i
    order = linear_extension(ops, S['schedule'])
    return {'kind': 'ECON', 'family': info['family'], 'ops': ops, 'order': [ops[i]['u'] for i in order]}


def permuted(case):
    by_u = {op['u']: op for op in case['ops']}
    return [by_u[u] for u in case['order'] if u in by_u]


def valid(case):
    """The permuted program must still respect the dependencies of the (possibly shrunk) program."""
    ops = case['ops']
    pos = {u: i for i, u in enumerate(case['order'])}
    deps = dependencies(ops)
    for i, op in enumerate(ops):
        for j in deps[i]:
            if pos.get(ops[j]['u'], -1) > pos.get(op['u'], -1):
                return False
    return True


def list_paths(case):
    return [('ops',)]


def simplify(case):
    # move the schedule towards the canonical order: undo one inversion at a time
    order = case['order']
    for i in range(len(order) - 1):
        if order[i] > order[i + 1]:
            c = core.deep_copy(case)
            c['order'][i], c['order'][i + 1] = order[i + 1], order[i]
            yield c
    for c in econprops.simplify(case):
        yield c


simplifiers = (simplify,)


def classify_order(case):
    """Cause class from the (minimised) schedule."""
    ops_p = permuted(case)
    pos = {op['u']: i for i, op in enumerate(ops_p)}
    for op in ops_p:
        if op['op'] == 'FixedMarginBusiness':
            lab = op.get('labour') or 'LAB'
            for o2 in ops_p:
                if o2['op'] == 'Market' and o2['country'] == op['country'] and o2['code'] == lab and pos[o2['u']] < pos[op['u']]:
                    return 'FixedMarginBusiness-declared-after-its-labour-market'
    return 'other'


def execute(case):
    ops_c = case['ops']
    ops_p = permuted(case)
    stats = {'runs': 1, 'probes': {}, 'family': {case['family']: 1}}
    moved = sum(1 for a, b in zip([o['u'] for o in ops_c], [o['u'] for o in ops_p]) if a != b)
    stats['ops_moved'] = moved
    cls = classify_order(case)
    if cls != 'other':
        stats['probes']['business_after_labour_market'] = 1
    if any(o['op'] == 'Exclude' for o in ops_c):
        stats['probes']['income_exclusion_registered_after_construction'] = 1
    viol, sa, sb = econprops.twin_check(ops_c, ops_p, ID, 'order-dependence', lambda det: cls, stats=stats)
    # an order that makes construction itself fail (op raising) is also order dependence
    if not viol and len(sb.errors) != len(sa.errors):
        e = (sb.errors or sa.errors)[0]
        viol.append(core.violation(ID, 'order-dependence:construction-error', 'order-dependence:construction-error:' + cls,
                                   op=e[1], error=e[2], message=e[3]))
    return {'violations': viol, 'stats': stats,
            'sig': core.digest([econprops.program_sig(case, sa), case['order']]),
            'digest': core.digest([[(i, n, o) for i, n, o in sb.log],
                                   {m: econ.series_of(sb, m) for m in econprops.models_in(ops_p) if m in sb.H}]),
            'nontrivial': moved > 0 and stats.get('both_solved', 0) > 0}
