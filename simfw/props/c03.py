"""C03 - equation reduction never changes any solution value (reduction on/off twin)."""
from .. import core, eqn, eqncases
from ..blockgen import gen_block

ID = 'C03'
RUNS = {'quick': 5000, 'thorough': 300000}
WALL_CAP = {'quick': 60, 'thorough': 1500}
BLOCK = 50
RULE = ('runs = seeded EQN sessions on blocks rich in alias chains (of simultaneous, lagged, exogenous, constant '
        'variables, with and without a leading +), decorative chains/trees and initial conditions on any of them; '
        'each block is solved twice by the real solver, reduction on and off, same knobs; oracle = same key set, '
        'k=0 values identical, k>=1 equal within the twin bound (candidate discrepancies are re-run at tolerance '
        '1e-13 and kept only if they do not shrink), every submitted variable in exactly one parser class. '
        'distinct = distinct (block shape, knobs, outcome pair) among pairs where both twins solved >= 1 period and '
        'the reduction moved or substituted at least one variable')
COMPONENTS = {'real': ['sfc_models.equation_parser.EquationParser (EquationReduction, FindExactMatches, MoveDecorative)',
                       'sfc_models.equation_solver.EquationSolver'], 'stub': []}
ASSUMPTIONS = ['pure alias cycles are excluded (documented precondition of FindExactMatches)',
               'twin threshold 100*tol*(1+scale) for candidates, 1e-7*(1+scale) after confirmation at 1e-13']

list_paths = eqncases.list_paths
simplifiers = eqncases.simplifiers
valid = eqncases.valid


def generate(seed, tier):
    S = core.Streams(seed)
    rng = S['topology']
    T = S['knobs'].randint(1, 12 if tier == 'thorough' else 8)
    block, meta = gen_block(rng, 'contractive', T=T, n=rng.randint(1, 6), rich=True,
                            tol_text=S['knobs'].choice([None, None, '1e-6', '1e-10']))
    if S['swarm'].random() < 0.03:
        # the final equation text of a seeded ECON program (alias chains and decoration as the framework emits them)
        eb = eqncases.econ_block(seed)
        if eb is not None:
            block = eb[0]
            block['err_tol'] = None
            knobs = {'reduction': True, 'tol_param': 1e-11, 'cap': 5000, 'trace_step': None, 'maxtime_attr': None, 'tick_var': None}
            return {'kind': 'EQN', 'profile': 'reduction_twin_econ_text', 'drive': 'mono', 'faults': [], 'expect': {},
                    'block': block, 'knobs': knobs, 'meta': {'q': None, 'n': len(block['eqs']), 'nonlinear': True}}
    # extra aliases on top of what the grammar drew: chains through aliases carrying initial conditions
    extra = S['topology'].choice([0, 1, 2, 3])
    pool = [v for v, _ in block['eqs']] + [l for l, _, _ in block['lags']] + [v for v, _ in block['exo']]
    pool = [p for p in pool if p != 't']
    for i in range(extra):
        tgt = pool[rng.randrange(len(pool))]
        an = 'b%d' % i
        block['eqs'].append([an, tgt])
        pool.append(an)
        if rng.random() < 0.4:
            block['ics'].append([an, repr(float(rng.randint(-9, 9)))])
    if S['swarm'].random() < 0.08:
        # a reporting variable defined through a user function (registered with AddFunction) on inputs known at k=0
        block['exo'].append(['uzx', '[%s]*%d' % (repr(rng.choice([3.0, 0.5, 12.0])), T + 2)])
        block['eqs'].append(['uz', rng.choice(['tick(uzx) + 1.0', '2.0*tick(uzx)', 'tick(uzx + 1.0)'])])
    if S['swarm'].random() < 0.08:
        # an alias whose name looks like the tail of a float literal (e2, E, e0) next to literals written with a bare
        # decimal point before the exponent (2.e2, 1.E-1): substitution works on whole tokens, not on text
        tgt = pool[rng.randrange(len(pool))]
        al = rng.choice(['e2', 'E', 'e0', 'E1'])
        if al not in eqn.block_vars(block):
            block['eqs'].append([al, tgt])
            block['eqs'].append(['lz', rng.choice(['2.e2 + %s', '1.E-1*%s + 3.e0', '%s - 1.E+1', '5.e-1*%s + 2.E1']) % tgt])
            if rng.random() < 0.5:
                block['eqs'].append(['lz2', '%s + 1.e0' % al])
    if S['swarm'].random() < 0.12:
        # the other side of a flow: a variable defined as the negative of another, then used where operator precedence
        # matters (power, unary minus, division) - a textual substitution must keep its value
        tgt = pool[rng.randrange(len(pool))]
        block['eqs'].append(['nb', rng.choice(['-%s', '- %s', '-1.0*%s', '-(%s)']) % tgt])
        block['eqs'].append(['pz', rng.choice(['nb**2', '0.5*nb**2 + 1.0', '1.0/(1.0 + nb**2)', '3.0 - nb**2', 'nb*nb - nb',
                                              '-nb**2', '2.0/(1.0 + nb*nb) - nb', '(nb)**2 - -nb'])])
    if S['swarm'].random() < 0.12:
        # a reporting ratio nothing depends on, whose k=0 value cannot be computed from the time-zero constants
        # (denominator series starts at 0 / argument outside the domain): both twins must step over it at k=0
        if T >= 2 and rng.random() < 0.4:
            # ... or in a later period only: both twins must then stop at that period with the same error class
            kz = rng.randint(1, T)
            gv = repr(rng.choice([2.0, 4.0, 0.5]))
            block['exo'].append(['gz', '[%s]*%d + [0.0] + [%s]*%d' % (gv, kz, gv, T + 2)])
        else:
            block['exo'].append(['gz', '[0.0] + [%s]*%d' % (repr(rng.choice([2.0, 4.0, 0.5])), T + 2)])
        src = 'gz'
        if rng.random() < 0.5:
            block['eqs'].append(['bz', 'gz'])
            src = 'bz'
        block['eqs'].append(['hz', rng.choice(['10./%s', 'log10(%s)', 'sqrt(%s - 0.25)', '1.0/(%s*%s)', '%s**(-1)']).replace('%s', src)])
    if rng.random() < 0.5:
        rng.shuffle(block['eqs'])
    knobs = {'reduction': True, 'tol_param': S['knobs'].choice([1e-12, 1e-12, 1e-10, 1e-8, None]),
             'cap': S['knobs'].choice([3000, 5000]), 'trace_step': None, 'maxtime_attr': None, 'tick_var': None}
    if S['swarm'].random() < 0.25:
        knobs['trace_step'] = S['knobs'].randint(1, T)      # tracing a step must not change what is computed
    if S['swarm'].random() < 0.2:
        # the optional initial steady-state search installs k=0 values: they too must not depend on the reduction
        knobs['steady'] = {'T': S['knobs'].choice([20, 40]), 'tol': 1e-4, 'excluded': ['t']}
        knobs['tol_param'] = 1e-12      # the search solves at the tolerance in force: keep its noise far below the bound
    return {'kind': 'EQN', 'profile': 'reduction_twin', 'drive': S['knobs'].choice(['mono', 'step']), 'faults': [],
            'expect': {}, 'block': block, 'knobs': knobs,
            'meta': {'q': meta['q'], 'n': meta['n'], 'nonlinear': meta['nonlinear']}}


def twin(case, tol=None, cap=None):
    k_on = dict(case['knobs'])
    k_off = dict(case['knobs'])
    k_on['reduction'] = True
    k_off['reduction'] = False
    if tol is not None:
        k_on['tol_param'] = k_off['tol_param'] = tol
    if cap is not None:
        k_on['cap'] = k_off['cap'] = cap
    r_on = eqn.run_block(case['block'], k_on, (), case.get('drive', 'mono'))
    r_off = eqn.run_block(case['block'], k_off, (), case.get('drive', 'mono'))
    return r_on, r_off


def compare(r_on, r_off, thr_rel, k0_exact=True):
    """Returns (kind, details) of the first discrepancy or None."""
    s_on, s_off = r_on['series'], r_off['series']
    if set(s_on) != set(s_off):
        return 'key-set-differs', {'only_reduced': sorted(set(s_on) - set(s_off)),
                                   'only_unreduced': sorted(set(s_off) - set(s_on))}
    worst = None
    for v in sorted(s_on):
        a, b = s_on[v], s_off[v]
        if len(a) != len(b):
            return 'length-differs', {'var': v, 'reduced': len(a), 'unreduced': len(b)}
        if len(a) and not eqn.same(a[0], b[0]):
            if k0_exact or not (core.is_finite_number(a[0]) and core.is_finite_number(b[0])) or \
                    abs(a[0] - b[0]) > max(thr_rel, 1e-7) * (1.0 + max(abs(a[0]), abs(b[0]))):
                return 'k0-mismatch', {'var': v, 'reduced': a[0], 'unreduced': b[0]}
    scale = max([1.0] + [abs(x) for s in s_off.values() for x in s if core.is_finite_number(x)])
    for v in sorted(s_on):
        a, b = s_on[v], s_off[v]
        for kk in range(1, len(a)):
            if not eqn.same(a[kk], b[kk]):
                if not (core.is_finite_number(a[kk]) and core.is_finite_number(b[kk])):
                    return 'value-mismatch', {'var': v, 'k': kk, 'reduced': a[kk], 'unreduced': b[kk]}
                d = abs(a[kk] - b[kk])
                if d > thr_rel * (1.0 + scale) and (worst is None or d > worst[1]['diff']):
                    worst = ('value-mismatch', {'var': v, 'k': kk, 'reduced': a[kk], 'unreduced': b[kk],
                                                'diff': d, 'scale': scale})
    return worst


def partition_check(block, rec):
    p = rec['parser']
    if p is None:
        return None
    seen = {}
    for cls in ('endo', 'deco', 'lag', 'exo'):
        for v in p[cls]:
            seen[v] = seen.get(v, 0) + 1
    want = set(eqn.block_vars(block))
    if not eqn.has_user_t(block):
        want.add('t')
    dup = sorted(v for v, n in seen.items() if n > 1)
    missing = sorted(want - set(seen))
    extra = sorted(set(seen) - want - {'k'})
    if dup or missing or extra:
        return {'duplicated': dup, 'lost': missing, 'invented': extra}
    return None


def execute(case):
    r_on, r_off = twin(case)
    viol = []
    st = {'runs': 1, 'outcome_pair': {'%s/%s' % (r_on['outcome'], r_off['outcome']): 1}, 'probes': {},
          'periods_solved': eqn.reported_periods(r_on, case.get('drive'))}
    moved = 0
    if r_on['parser'] and r_off['parser']:
        moved = len(r_on['parser']['deco'])
        st['decorative_moved'] = moved
        if moved:
            st['probes']['reduction_moved_something'] = 1
    pc = partition_check(case['block'], r_on)
    if pc:
        viol.append(core.violation(ID, 'variable-partition-broken', 'variable-partition-broken', **pc))
    both_ok = r_on['outcome'] == 'ok' and r_off['outcome'] == 'ok'
    if not viol:
        if r_on['outcome'] != r_off['outcome']:
            conv = {'ok', 'ConvergenceError'}
            if case['knobs'].get('steady'):
                # refusals of the steady-state search (and marginal accept/refuse flips) are not value differences
                conv = {'ok', 'ConvergenceError', 'ValueError', 'NoEquilibriumError'}
            both_refuse = r_on['outcome'] != 'ok' and r_off['outcome'] != 'ok' and \
                'ValueError' in r_on.get('exc_mro', []) and 'ValueError' in r_off.get('exc_mro', []) and \
                r_on.get('failed_period') == r_off.get('failed_period')
            if {r_on['outcome'], r_off['outcome']} <= conv or \
                    ('ConvergenceError' in (r_on['outcome'], r_off['outcome']) and 'ok' not in (r_on['outcome'], r_off['outcome'])):
                # (a twin that cannot be iterated to the tolerance yields no values to compare, whatever stops the other)
                st['inconclusive_nonconvergent'] = 1
            elif both_refuse:
                # both twins stop at the same period with an error of the ValueError family (which member of the
                # family depends on whether the failing variable is iterated or derived): no value differs
                st['probes']['both_twins_refuse_at_same_period'] = 1
            else:
                viol.append(core.violation(ID, 'outcome-differs', 'outcome-differs:%s/%s' % (r_on['outcome'], r_off['outcome']),
                                           reduced=r_on['outcome'], unreduced=r_off['outcome'],
                                           msg_reduced=r_on['message'], msg_unreduced=r_off['message']))
        elif both_ok:
            tol = eqn.tolerance_in_force(case['block'], case['knobs'])
            k0x = not case['knobs'].get('steady')      # k=0 values installed by an iterative search are numeric
            d = compare(r_on, r_off, 100.0 * tol, k0_exact=k0x)
            if d is not None and d[0] == 'value-mismatch' and 'diff' in d[1]:
                # confirmation pass at tight tolerance
                c_on, c_off = twin(case, tol=1e-13, cap=5000)
                if c_on['outcome'] == 'ok' and c_off['outcome'] == 'ok':
                    d2 = compare(c_on, c_off, 1e-7, k0_exact=k0x)
                    if d2 is None:
                        st['noise_discarded'] = 1
                        d = None
                    else:
                        d = d2
                else:
                    st['inconclusive_nonconvergent'] = 1
                    d = None
            if d is not None:
                sig = d[0]
                if d[0] == 'k0-mismatch':
                    # cause class: does the alias chain of the variable pass through a variable with an IC?
                    sig = 'k0-mismatch:' + k0_cause(case['block'], d[1]['var'])
                viol.append(core.violation(ID, d[0], sig, **d[1]))
    nontrivial = both_ok and moved > 0 and st['periods_solved'] >= 1
    sig = core.digest([eqncases.case_sig(case, r_on), r_off['outcome']])
    return {'violations': viol, 'stats': st, 'sig': sig,
            'digest': core.digest([eqn.series_digest(r_on), eqn.series_digest(r_off)]), 'nontrivial': nontrivial}


def k0_cause(block, var):
    """Cause class of a k=0 mismatch: is there an alias variable (x = <bare defined name>) that
    carries its own initial condition?  That is the one mechanism seen so far."""
    eqs = {v: r.strip().lstrip('+').strip() for v, r in block['eqs']}
    ics = set(v for v, _ in block['ics'])
    defined = set(eqn.block_vars(block))
    for v in sorted(ics):
        if v in eqs and eqs[v] in defined:
            return 'alias-with-own-IC-present'
    return 'no-alias-with-IC'
