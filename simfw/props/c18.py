"""C18 - codes are labels: renaming and embedding leave an economy unchanged."""
import re

from .. import core, econ, econgen, econprops

ID = 'C18'
RUNS = {'quick': 600, 'thorough': 25000}
WALL_CAP = {'quick': 75, 'thorough': 1800}
BLOCK = 6
RULE = ('runs = seeded ECON programs executed as twins by the real library: (A) the same program with country, '
        'government / household / firm / capitalist / tax-flow sector codes and goods / labour market codes replaced by '
        'an injective renaming through the constructors\' name parameters; (B) 2-3 economies with pairwise different '
        'currencies and no declared flows hosted in one model (with / without an unused ExternalSector, incl. the '
        'gl_book builders embedded via model=) versus each economy alone. Oracle: series equal under the renaming / '
        'the country-code prefix within the twin bound (confirmation at 1e-13), same success class, and no variable '
        'of one zone in an equation of another zone (independent parser of the final text). distinct = distinct '
        '(program structure, twin kind, renaming) among twins that both solved')
COMPONENTS = {'real': ['whole model-building and solving stack', 'gl_book builders (SIM, SIMEX1, PC)'], 'stub': []}
ASSUMPTIONS = ['new codes are identifier-shaped without double underscore and do not collide with variable-name tokens',
               'the government sector has no name parameter for its good: its built-in DEM_GOOD / PRIM_BAL are left out '
               'of the comparison when the good is renamed (the program declares the renamed demand explicitly)']

# (some new codes are contained in others - STATE / TA / AT / ST, GVT / GV - : a code is a label, not a pattern)
NEWCODES = {'GOV': ['GVT', 'G2', 'State', 'STATE', 'STATE'], 'HH': ['HOUSE', 'H1', 'hh_x', 'TA', 'ST'],
            'BUS': ['FIRM', 'B9', 'Corp', 'AT', 'GV'],
            'TF': ['TAXES', 'TX'], 'GOOD': ['WIDGET', 'GD', 'Bread'], 'LAB': ['WORK', 'LB', 'Labour'],
            'CAP': ['RENTIER', 'CP']}
NEWCOUNTRY = {'CA': 'KA', 'US': 'USA', 'C1': 'Q7', 'X': 'Zed', 'JP': 'NIPPON', 'UK': 'GB'}


def generate(seed, tier):
    S = core.Streams(seed)
    r = S['swarm'].random()
    tight = S['swarm'].random() < 0.8
    T = S['knobs'].randint(2, 4)
    if r < 0.55:
        fam = S['swarm'].choice(['closed', 'closed', 'closed_fin', 'capitalists', 'pc', 'multi_currency'])
        names = {}
        which = S['swarm'].choice([['GOOD'], ['LAB'], ['GOOD', 'LAB'], ['HH', 'BUS', 'TF'], ['GOV'], ['CAP', 'HH'],
                                   ['GOV', 'HH', 'BUS', 'TF', 'GOOD', 'LAB', 'CAP'], []])
        for k in which:
            names[k] = S['swarm'].choice(NEWCODES[k])
        cmap = dict(NEWCOUNTRY) if (S['swarm'].random() < 0.5 or not names) else {}
        hv = S['swarm'].choice(['Household', 'HouseholdWithExpectations'])
        return {'kind': 'ECON', 'twin': 'rename', 'family': fam, 'seed': seed, 'tight': tight, 'T': T,
                'names': names, 'cmap': cmap, 'hh_variant': hv}
    # embedding: economies described by (kind, sub-seed, code, currency)
    n = S['swarm'].choice([2, 2, 3])
    codes = S['swarm'].sample(['CA', 'US', 'JP', 'UK'], n)
    econs = []
    transfers = S['swarm'].random() < 0.3
    for i, code in enumerate(codes):
        kind = S['swarm'].choice(['closed', 'closed_fin', 'capitalists', 'pc', 'builder:SIM', 'builder:SIMEX1', 'builder:PC',
                                  'federated'])
        if kind == 'federated' and any(e['kind'] == 'federated' for e in econs):
            kind = 'closed'          # region codes of the federated family are fixed: at most one per model
        e = {'kind': kind, 'seed': core.run_seed(seed, 'embed', 'x', i), 'code': code}
        if kind in ('closed', 'closed_fin', 'capitalists') and S['swarm'].random() < 0.4:
            # codes are labels: this economy calls its government 'HH' and its households 'GOV' (or similar), so
            # that the same code names different kinds of sector in different economies of the model
            e['names'] = S['swarm'].choice([{'GOV': 'HH', 'HH': 'GOV'}, {'GOV': 'BUS', 'BUS': 'GOV'}, {'HH': 'TF', 'TF': 'HH'},
                                            {'GOV': 'HH', 'HH': 'PS'}])
        if kind in ('closed', 'closed_fin', 'capitalists') and transfers:
            # a domestic transfer registered with Model.RegisterCashFlow under the same variable name in every economy
            e['transfer'] = True
        econs.append(e)
    if S['swarm'].random() < 0.2:
        # currency names are plain strings: 'kr', 'Kr' and 'KR' are three different currencies
        for e, cur in zip(econs, S['swarm'].sample(['kr', 'Kr', 'KR', 'kR'], len(econs))):
            if e['kind'] in ('closed', 'closed_fin', 'capitalists', 'pc'):
                e['currency'] = cur
    case = {'kind': 'ECON', 'twin': 'embed', 'family': 'embed', 'seed': seed, 'tight': tight, 'T': T,
            'economies': econs, 'external': S['swarm'].choice([None, None, 'first', 'last'])}
    # construction histories: a diagnostic dump after each economy is declared, and names requested (and used in a new
    # equation) only once every economy of the model exists
    case['loginfo'] = [i for i in range(len(econs)) if S['swarm'].random() < 0.4] if S['swarm'].random() < 0.4 else []
    case['late'] = S['swarm'].random() < 0.3
    # the seeded scheduler may interleave the declarations of the economies (each keeps its own order; an external
    # sector may then appear anywhere): a region can join its federation after another economy's country exists
    case['interleave'] = S['schedule'].randrange(1 << 30) if S['swarm'].random() < 0.3 else None
    return case


def list_paths(case):
    if case['twin'] == 'embed':
        return [('economies',)]
    return []


def simplify(case):
    if case['twin'] == 'rename':
        for k in sorted(case['names']):
            c = core.deep_copy(case)
            del c['names'][k]
            yield c
        if case['cmap']:
            c = core.deep_copy(case)
            c['cmap'] = {}
            yield c
        for fam in ('closed',):
            if case['family'] != fam:
                c = core.deep_copy(case)
                c['family'] = fam
                yield c
    else:
        if case.get('late'):
            c = core.deep_copy(case)
            c['late'] = False
            yield c
        if case.get('interleave') is not None:
            c = core.deep_copy(case)
            c['interleave'] = None
            yield c
        for i in (case.get('loginfo') or []):
            c = core.deep_copy(case)
            c['loginfo'] = [j for j in case['loginfo'] if j != i]
            yield c
        if case.get('external'):
            c = core.deep_copy(case)
            c['external'] = None
            yield c
        for i, e in enumerate(case['economies']):
            if e['kind'] not in ('closed', 'federated'):
                c = core.deep_copy(case)
                c['economies'][i]['kind'] = 'closed'
                yield c
        if e.get('names'):
            c = core.deep_copy(case)
            del c['economies'][i]['names']
            yield c
    if case['T'] > 2:
        c = core.deep_copy(case)
        c['T'] = 2
        yield c


simplifiers = (simplify,)


def valid(case):
    if case['twin'] == 'embed':
        return len(case['economies']) >= 2
    return True


# ---- twin A ---------------------------------------------------------------------------

def token_map(case):
    tm = {}
    for k, v in case['names'].items():
        tm[k] = v
    for k, v in case['cmap'].items():
        tm[k] = v
    return tm


def rename_var(name, tm):
    parts = name.split('__')
    out = []
    for p in parts:
        out.append('_'.join(tm.get(tok, tok) for tok in p.split('_')))
    return '__'.join(out)


def execute_rename(case, stats):
    ops_a, info = econgen.gen_program(case['seed'], family=case['family'], tight=case['tight'], T=case['T'],
                                      hh_variant=case['hh_variant'])
    ops_b, _ = econgen.gen_program(case['seed'], family=case['family'], tight=case['tight'], T=case['T'],
                                   names=case['names'], cmap=case['cmap'], hh_variant=case['hh_variant'])
    tm = token_map(case)
    ignore_a, ignore_b = set(), set()
    if 'GOOD' in case['names']:
        # government: built-in DEM_GOOD (orig: the demand itself) maps to DEM_<new>; the renamed twin keeps an unused
        # literal DEM_GOOD and a PRIM_BAL defined on it
        sa = econ.run_program([o for o in ops_a if o['op'] != 'main'])
        for h, o in sa.H.items():
            pass
    def classify(det):
        txt = str(det)
        if 'labour' in txt.lower() or 'LAB' in txt or 'supplier' in txt.lower():
            return 'labour-name-not-honoured'
        if 'DEM_GOOD' in txt or 'SUP_GOOD' in txt:
            return 'good-name-hard-coded'
        return 'other'

    def rn(n):
        return rename_var(n, tm)
    ignore = []
    if 'GOOD' in case['names']:
        for o in ops_a:
            if o['op'] in ('ConsolidatedGovernment', 'GoldStandardGovernment', 'Treasury'):
                new_code = tm.get(o['code'], o['code'])
                # both twins: PRIM_BAL is defined on the literal DEM_GOOD; renamed twin: unused literal DEM_GOOD
                ignore.append(('a', re.compile(r'(^|_)%s__PRIM_BAL$' % re.escape(o['code']))))
                ignore.append(('b', re.compile(r'(^|_)%s__(PRIM_BAL|DEM_GOOD)$' % re.escape(new_code))))
    viol, sa, sb = twin_compare_custom(ops_a, ops_b, rn, ignore, classify, stats, case)
    stats['probes']['renamed_' + '+'.join(sorted(case['names'])) if case['names'] else 'renamed_countries_only'] = 1
    return viol, sa, sb


def twin_compare_custom(ops_a, ops_b, rn, ignore_res, classify, stats, case):
    """Like econprops.twin_check, with regex based ignore list applied to the renamed names."""
    def filt_a(series):
        return {rn(k): v for k, v in series.items() if not any(w == 'a' and rx.search(k) for w, rx in ignore_res)}

    def filt_b(series):
        return {k: v for k, v in series.items() if not any(w == 'b' and rx.search(k) for w, rx in ignore_res)}
    viol = []
    sa, ra = econprops.run_and_series(ops_a)
    sb, rb = econprops.run_and_series(ops_b)
    tol = econprops.tolerance_of(ops_a)
    cand = max(econprops.FINAL_REL, 50.0 * tol)
    tm = token_map(case)
    for mh in ra:
        (oa, ma), xa = ra[mh]
        (ob, mb), xb = rb.get(mh, (('missing', ''), {}))
        key = '%s/%s' % (oa, ob)
        stats.setdefault('outcome_pair', {})
        stats['outcome_pair'][key] = stats['outcome_pair'].get(key, 0) + 1
        # construction errors in the renamed twin only
        if len(sb.errors) != len(sa.errors):
            e = (sb.errors or sa.errors)[0]
            det = {'op': e[1], 'error': e[2], 'message': e[3]}
            viol.append(core.violation(ID, 'rename:construction-error', 'rename:construction-error:' + classify(det), **det))
            return viol, sa, sb
        if oa != ob:
            if {oa, ob} <= {'ok', 'ConvergenceError'}:
                stats['inconclusive_nonconvergent'] = stats.get('inconclusive_nonconvergent', 0) + 1
                continue
            det = {'original': oa, 'renamed': ob, 'msg_original': ma, 'msg_renamed': mb}
            viol.append(core.violation(ID, 'rename:outcome', 'rename:outcome:' + classify(det), **det))
            continue
        if oa != 'ok':
            continue
        stats['both_solved'] = stats.get('both_solved', 0) + 1
        fa = filt_a(xa)
        fb = filt_b(xb)
        d = econprops.compare_series(fa, fb, cand)
        if d is not None and d[2] != float('inf') and tol > 1e-12:
            _s1, r1 = econprops.run_and_series(econprops.with_tight(ops_a))
            _s2, r2 = econprops.run_and_series(econprops.with_tight(ops_b))
            if r1[mh][0][0] == 'ok' and r2[mh][0][0] == 'ok':
                fa2 = filt_a(r1[mh][1])
                fb2 = filt_b(r2[mh][1])
                d = econprops.compare_series(fa2, fb2, econprops.FINAL_REL)
                if d is None:
                    stats['noise_discarded'] = stats.get('noise_discarded', 0) + 1
            else:
                d = None
                stats['inconclusive_confirmation_failed'] = stats.get('inconclusive_confirmation_failed', 0) + 1
        if d is not None:
            viol.append(core.violation(ID, 'rename:' + d[0], 'rename:' + d[0] + ':' + classify(d[1]), rel_magnitude=d[2], **d[1]))
    return viol, sa, sb


# ---- twin B ---------------------------------------------------------------------------

def economy_ops(e, T, tight, standalone):
    """Ops of one economy inside model 'm0' with handles prefixed; returns (ops, country code)."""
    code = e['code']
    if e['kind'].startswith('builder:'):
        which = e['kind'].split(':')[1]
        S = core.Streams(e['seed'])
        pid = 'b_' + code
        ops = [{'op': 'Builder', 'id': pid, 'which': which, 'country_code': code, 'model': 'm0', 'book_exo': False}]
        g = econgen.path(S['params'], T, 5.0, 60.0, digits=1)
        govh = pid + ('.TRE' if which == 'PC' else '.GOV')
        ops.append({'op': 'SetExogenous', 'sector': govh, 'var': 'DEM_GOOD', 'value': g})
        if which == 'PC':
            ops.append({'op': 'SetExogenous', 'sector': pid + '.DEP', 'var': 'r',
                        'value': econgen.path(S['params'], T, 0.0, 0.06, digits=3)})
        return ops
    cmap = {c: code for c in ('CA', 'US', 'C1', 'X')}
    sub, info = econgen.gen_program(e['seed'], family=e['kind'], tight=tight, T=T, cmap=cmap, with_main=False,
                                    names=e.get('names'))
    if e.get('currency'):
        for op in sub:
            if op['op'] == 'Country':
                op['currency'] = e['currency']
    if e['kind'] == 'federated':
        # the federation's currency is stated explicitly (pairwise different currencies is the premise);
        # its member regions take the default currency, as the library's own REG2 builder does
        for op in sub:
            if op['op'] == 'Region' and op['code'] == 'GOV':
                op['currency'] = 'FED_' + code
    # every country / region states its currency explicitly (the one it resolves to when the economy is alone): the
    # library's default for a Region is "the currency of whichever country was declared last in the model", which
    # is a statement about the declaration order, not about the economy
    from .. import econref
    decl = econref.declare(sub)
    for op in sub:
        if op['op'] in ('Country', 'Region') and op.get('currency') is None and op['id'] in decl.countries:
            op['currency'] = decl.countries[op['id']]['currency']
    if e.get('transfer'):
        gov = [o['id'] for o in sub if o['op'] in ('ConsolidatedGovernment', 'Treasury')]
        hh = [o['id'] for o in sub if o['op'] in ('Household', 'HouseholdWithExpectations')]
        if gov and hh:
            St = core.Streams(e['seed'])
            vals = econgen.path(St['transfer'], T, 0.5, 6.0, digits=1)
            sub += [{'op': 'AddVariable', 'sector': gov[0], 'name': 'TRANSFER', 'eqn': '0.0'},
                    {'op': 'SetExogenous', 'sector': gov[0], 'var': 'TRANSFER', 'value': vals},
                    {'op': 'RegisterCashFlow', 'model': 'm0', 'source': gov[0], 'target': hh[0], 'var': 'TRANSFER'}]
    out = []
    pre = 'e_%s_' % code
    for op in sub:
        if op['op'] == 'Model':
            continue
        if op['op'] == 'SetAttr' and op.get('obj') == 'm0':
            continue
        o = dict(op)
        for key in ('id', 'country', 'sector', 'market', 'supplier', 'business', 'obj', 'source', 'target', 'treasury', 'ref'):
            if isinstance(o.get(key), str) and o[key] != 'm0':
                o[key] = pre + o[key]
        if 'markets' in o:
            o['markets'] = [pre + x for x in o['markets']]
        if o['op'] == 'GetVariableName':
            o['save_as'] = pre + o['save_as']
        for key in ('eqn', 'term'):
            if isinstance(o.get(key), str):
                o[key] = re.sub(r'\{name:', '{name:' + pre, o[key])
        if o['op'] == 'AssetWeighting':
            o['weights'] = [[c, re.sub(r'\{name:', '{name:' + pre, ee)] for c, ee in o['weights']]
        if o['op'] == 'AddInitialCondition' and o.get('by') == 'code':
            # full codes differ between the stand-alone and the joint model: go through the sector object instead
            o = None
        if o is not None:
            out.append(o)
    return out


def knob_ops(T, tight):
    ops = [{'op': 'SetAttr', 'obj': 'm0', 'attr': 'MaxTime', 'value': T}]
    if tight:
        ops.append({'op': 'SetAttr', 'obj': 'm0', 'solver': True, 'attr': 'ParameterErrorTolerance', 'value': 1e-11})
        ops.append({'op': 'SetAttr', 'obj': 'm0', 'solver': True, 'attr': 'MaxIterations', 'value': 5000})
    return ops


def zone_isolation(sess, mh, codes):
    """No variable of one economy appears in an equation of another (independent parse of the final text)."""
    txt = sess.final_text.get(mh, '')
    p = econ.parse_final(txt)
    for lhs, rhs in p['eqs'] + [(l, s) for l, s in p['lags']]:
        own = [c for c in codes if lhs.startswith(c + '_')]
        if not own:
            continue
        for n in econ.names_in_rhs(rhs):
            for c in codes:
                if c != own[0] and n.startswith(c + '_') and '__' in n:
                    return {'equation': lhs, 'rhs': rhs, 'foreign_name': n}
    return None


def late_ops(e, ops):
    """Ops of one economy issued after everything else is declared: ask a household for the name of its financial
    assets and use it in a new (reporting) equation of the government."""
    hh = gov = None
    for o in ops:
        if o['op'] == 'Builder':
            hh = o['id'] + '.HH'
            gov = o['id'] + ('.TRE' if o['which'] == 'PC' else '.GOV')
        elif o['op'] in ('Household', 'HouseholdWithExpectations') and hh is None:
            hh = o['id']
        elif o['op'] in ('ConsolidatedGovernment', 'Treasury') and gov is None:
            gov = o['id']
    if hh is None or gov is None:
        return []
    nm = 'late_%s_F' % e['code']
    return [{'op': 'GetVariableName', 'sector': hh, 'var': 'F', 'save_as': nm},
            {'op': 'AddVariable', 'sector': gov, 'name': 'HHWEALTH', 'eqn': '{name:%s}' % nm}]


def execute_embed(case, stats):
    T, tight = case['T'], case['tight']
    viol = []
    joint = [{'op': 'Model', 'id': 'm0'}]
    if case.get('external') == 'first':
        joint.append({'op': 'ExternalSector', 'id': 'ext', 'model': 'm0'})
    parts = []
    lates = []
    for i, e in enumerate(case['economies']):
        dump = [{'op': 'LogInfo', 'model': 'm0'}] if i in (case.get('loginfo') or []) else []
        ops = economy_ops(e, T, tight, False) + dump
        parts.append(ops)
        lates.append(late_ops(e, ops) if case.get('late') else [])
    if case.get('interleave') is None:
        for ops in parts:
            joint += ops
        if case.get('external') == 'last':
            joint.append({'op': 'ExternalSector', 'id': 'ext', 'model': 'm0'})
    else:
        import random
        sched = random.Random('interleave/%d' % case['interleave'])
        queues = [list(ops) for ops in parts]
        if case.get('external') == 'last':      # under interleaving: anywhere
            queues.append([{'op': 'ExternalSector', 'id': 'ext', 'model': 'm0'}])
        while any(queues):
            live = [q for q in queues if q]
            q = live[sched.randrange(len(live))]
            # run a short burst of one economy's declarations, then switch
            for _ in range(sched.randint(1, 4)):
                if q:
                    joint.append(q.pop(0))
        stats['probes']['declarations_of_economies_interleaved'] = 1
    for lt in lates:
        joint += lt
    for ops, lt in zip(parts, lates):
        ops.extend(lt)
    if case.get('late'):
        stats['probes']['name_requested_after_all_economies_declared'] = 1
    if case.get('loginfo'):
        stats['probes']['diagnostic_dump_between_economies'] = 1
    joint += knob_ops(T, tight) + [{'op': 'main', 'model': 'm0'}]
    sj, rj = econprops.run_and_series(joint)
    (oj, mj), xj = rj['m0']
    codes = [e['code'] for e in case['economies'] if e['kind'] != 'federated']
    stats['probes']['embedded_%d' % len(case['economies'])] = 1
    if any(e['kind'] == 'federated' for e in case['economies']):
        stats['probes']['federation_embedded'] = 1
    if case.get('external'):
        stats['probes']['unused_external_sector'] = 1
    tol = econprops.tolerance_of(joint)
    sa = sj
    for e, ops in zip(case['economies'], parts):
        alone = [{'op': 'Model', 'id': 'm0'}] + ops + knob_ops(T, tight) + [{'op': 'main', 'model': 'm0'}]
        ss, rs = econprops.run_and_series(alone)
        (oa, ma), xa = rs['m0']
        key = '%s/%s' % (oa, oj)
        stats.setdefault('outcome_pair', {})
        stats['outcome_pair'][key] = stats['outcome_pair'].get(key, 0) + 1
        kind_tag = e['kind']
        if len(ss.errors) == 0 and any(err[1].get('id', err[1].get('sector', '')).startswith(('e_%s_' % e['code'], 'b_' + e['code'])) for err in sj.errors):
            err = [x for x in sj.errors][0]
            viol.append(core.violation(ID, 'embed:construction-error', 'embed:construction-error:' + kind_tag,
                                       op=err[1], error=err[2], message=err[3]))
            break
        if oa != oj:
            if {oa, oj} <= {'ok', 'ConvergenceError'}:
                stats['inconclusive_nonconvergent'] = stats.get('inconclusive_nonconvergent', 0) + 1
                continue
            if oa == 'ok':
                viol.append(core.violation(ID, 'embed:outcome', 'embed:outcome:' + blame(case, mj), alone=oa, joint=oj,
                                           msg_joint=mj, economy=e))
                break
            continue
        if oa != 'ok':
            continue
        stats['both_solved'] = stats.get('both_solved', 0) + 1
        pre = e['code'] + '_'
        if e['kind'] == 'federated':
            # a federation is multi-country already when alone: its names are the same in the joint model
            fed_codes = sorted(set(k.split('_')[0] for k in xa if '__' in k))
            sub = {k: v for k, v in xj.items() if '__' in k and k.split('_')[0] in fed_codes}
            alone_s = {k: v for k, v in xa.items() if k not in ('k', 't')}
        else:
            sub = {k[len(pre):]: v for k, v in xj.items() if k.startswith(pre)}
            alone_s = {embed_name(k, e['code'], xa): v for k, v in xa.items() if k not in ('k', 't')}
        d = econprops.compare_series(alone_s, sub, max(econprops.FINAL_REL, 50 * tol))
        if d is not None and d[2] != float('inf') and tol > 1e-12:
            _s1, r1 = econprops.run_and_series(econprops.with_tight(alone))
            _s2, r2 = econprops.run_and_series(econprops.with_tight(joint))
            if r1['m0'][0][0] == 'ok' and r2['m0'][0][0] == 'ok':
                if e['kind'] == 'federated':
                    sub2 = {k: v for k, v in r2['m0'][1].items() if '__' in k and k.split('_')[0] in fed_codes}
                    al2 = {k: v for k, v in r1['m0'][1].items() if k not in ('k', 't')}
                else:
                    sub2 = {k[len(pre):]: v for k, v in r2['m0'][1].items() if k.startswith(pre)}
                    al2 = {embed_name(k, e['code'], r1['m0'][1]): v for k, v in r1['m0'][1].items() if k not in ('k', 't')}
                d = econprops.compare_series(al2, sub2, econprops.FINAL_REL)
                if d is None:
                    stats['noise_discarded'] = stats.get('noise_discarded', 0) + 1
            else:
                d = None
        if d is not None:
            viol.append(core.violation(ID, 'embed:' + d[0], 'embed:' + d[0] + ':' + kind_tag, rel_magnitude=d[2], economy=e, **d[1]))
            break
    if not viol and oj == 'ok':
        iso = zone_isolation(sj, 'm0', codes)
        if iso:
            viol.append(core.violation(ID, 'embed:zone-leak', 'embed:zone-leak', **iso))
    return viol, sj, sj


def embed_name(name, cc, all_names):
    """Name of a stand-alone variable inside the joint model, without the leading country prefix: a market's
    local variable SUP_<supplier code> carries the supplier's full code, which gains the country prefix."""
    if '__' not in name:
        return name
    sec, local = name.split('__', 1)
    codes = set(n.split('__')[0] for n in all_names if '__' in n)
    m = re.fullmatch(r'SUP_(.+)', local)
    is_market = (sec + '__SUP_' + sec) in all_names and (sec + '__DEM_' + sec) in all_names
    if m and is_market and m.group(1) in codes and m.group(1) != sec:
        return '%s__SUP_%s_%s' % (sec, cc, m.group(1))
    return name


def blame(case, msg):
    for e in case['economies']:
        if e['kind'].startswith('builder:'):
            if e['kind'] == 'builder:PC' and 'INTDEP' in msg:
                return 'builder:PC-hard-coded-CB__INTDEP'
    return 'other'


def execute(case):
    stats = {'runs': 1, 'probes': {}, 'twin': {case['twin']: 1}}
    if case['twin'] == 'rename':
        viol, sa, sb = execute_rename(case, stats)
    else:
        viol, sa, sb = execute_embed(case, stats)
    sig = core.digest([case['twin'], case.get('family'), case.get('names'), bool(case.get('cmap')), case.get('hh_variant'),
                       [(e['kind']) for e in case.get('economies', [])], case.get('external'),
                       [(n, o) for _, n, o in sb.log][0:60]])
    return {'violations': viol, 'stats': stats, 'sig': sig,
            'digest': core.digest([[(i, n, o) for i, n, o in sb.log], econ.series_of(sb, 'm0') if 'm0' in sb.H else {}]),
            'nontrivial': stats.get('both_solved', 0) > 0}
