"""C12 - equation-building arithmetic preserves value (OBJ sessions on Equation/Term/Sector)."""
from .. import core
from .. import valuation as V

ID = 'C12'
RUNS = {'quick': 30000, 'thorough': 3000000}
WALL_CAP = {'quick': 70, 'thorough': 1500}
BLOCK = 400
RULE = ('runs = seeded OBJ sessions: histories of Equation construction (no rhs / term list / leading expression), '
        'AddTerm with every sign and bracket spelling, the Sector.AddVariable + AddTermToEquation path (opaque '
        'leading expression first), SetEquationRightHandSide, and create_equation_from_terms with re-use of the '
        'caller\'s list, interleaved over 1-3 equations; oracle after every op = rendered right-hand side evaluates, '
        'under 8 independent valuations, to leading + sum of the accepted terms (term-sum reference model), rejected '
        'ops leave the equation unchanged, argument lists equal their pre-call copy. distinct = distinct op-shape '
        'sequences among histories with >= 3 accepted state-changing ops')
COMPONENTS = {'real': ['sfc_models.equation.Equation/Term/EquationBlock', 'sfc_models.sector.Sector (AddVariable, '
                       'AddTermToEquation, SetEquationRightHandSide)', 'sfc_models.utils.create_equation_from_terms'],
              'stub': []}
ASSUMPTIONS = ['leading expressions are arithmetic (+ - * / ** calls parentheses); operators binding weaker than + '
               'are outside the grammar', 'tolerance 1e-12 relative to the sum of absolute term values']

NAMES = ['a', 'b', 'c', 'x1', 'y', 'LAG_F', 'DEM_GOOD', 'HH__F']


def atom(rng):
    r = rng.random()
    if r < 0.55:
        return rng.choice(NAMES)
    if r < 0.7:
        return rng.choice(['2', '3.5', '0.25', '10', '1e3'])
    if r < 0.82:
        return '%s*%s' % (rng.choice(NAMES), rng.choice(NAMES + ['2', '0.5']))
    if r < 0.94:
        return '%s/%s' % (rng.choice(NAMES), rng.choice(NAMES + ['4']))
    # a number in front: coefficient of a product, numerator of a quotient
    return '%s%s%s' % (rng.choice(['2', '0.5', '1', '3', '1e2']), rng.choice(['*', '/', '/']), rng.choice(NAMES + ['4']))


MAY_REJECT_FORMS = ['--{b}', '+-{b}', '-+{b}', '++{b}', '- -{b}']


def spell(rng, body):
    """A signed / bracketed spelling of a term; all of the single-sign forms must be accepted. Double signs outside
    brackets (what a caller gets by prefixing a sign to an already signed term) may be rejected, but if they are
    accepted their value counts."""
    if rng.random() < 0.06:
        return rng.choice(MAY_REJECT_FORMS).format(b=body)
    form = rng.choice(['{b}', '{b}', '+{b}', '-{b}', '(-{b})', '-({b})', '({b})', '(+{b})', '-(-{b})', ' {b} ',
                       '- {b}', '+ ({b})'])
    return form.format(b=body)


LEADING = ['y', 'a*b', 'a+b', 'a-b', '-a', '2*a - b', 'max(a, b)', '(a+b)*c', 'a/b + c', '0.0', '', 'x1**2',
           'a*b*c', '-(a+b)', 'sqrt(a*a) + 1', 'LAG_F', 'DEM_GOOD', '2', 'y + y',
           # comparisons and keyword-free calls containing '=' characters: the text after the first '=' is the expression
           '(a >= b)*c', '(a <= b)*c + 1', '(a == b) + y', '(a != b)*c']

JOIN_TERMS = ['x', '-x', '+y', 'a*b', '-a*b', '+ c', '- c', '(a+b)', '-(a+b)', '+(a-b)', '1e+3*y', 'max(a+b, c)',
              '2', '-2.5', ' x1 ', 'HH__F', '-HH__F*2', 'a/b']


def generate(seed, tier):
    S = core.Streams(seed)
    rng = S['ops']
    ops = []
    n_eq = rng.choice([1, 1, 2, 3])
    eqs = []
    lists = []
    n_ops = rng.randint(3, 14)
    for i in range(n_ops):
        r = rng.random()
        if len(eqs) < n_eq and (not eqs or r < 0.25):
            eid = 'e%d' % len(eqs)
            kind = rng.choice(['none', 'list', 'str', 'sector', 'sector', 'lhs_eq'])
            # the left-hand side string may carry a trailing comment (it becomes the description)
            cm = rng.choice(['', '', '', ' # total of the flows', '  # [x] note'])
            if kind == 'none':
                ops.append({'op': 'new', 'id': eid, 'lhs': 'Q%d' % len(eqs), 'rhs_kind': 'none'})
            elif kind == 'list':
                ops.append({'op': 'new', 'id': eid, 'lhs': 'Q%d' % len(eqs) + cm, 'rhs_kind': 'list',
                            'rhs': [spell(rng, atom(rng)) for _ in range(rng.randint(0, 3))]})
            elif kind == 'str':
                ops.append({'op': 'new', 'id': eid, 'lhs': 'Q%d' % len(eqs) + cm, 'rhs_kind': 'str',
                            'rhs': rng.choice(LEADING)})
            elif kind == 'lhs_eq':
                ops.append({'op': 'new', 'id': eid, 'lhs': 'Q%d = %s' % (len(eqs), rng.choice([l for l in LEADING if l])),
                            'rhs_kind': 'none'})
            else:
                ops.append({'op': 'sector_var', 'id': eid, 'name': 'V%d' % len(eqs), 'eqn': rng.choice(LEADING)})
            eqs.append((eid, kind))
            continue
        if r < 0.10 and eqs:
            # a Term object owned by the caller, added (possibly several times, possibly to several equations)
            tid = 't%d' % sum(1 for o in ops if o['op'] == 'mkterm')
            body = atom(rng)
            ops.append({'op': 'mkterm', 'id': tid, 'term': spell(rng, body), 'body': body})
            for _ in range(rng.randint(1, 4)):
                eid, kind = eqs[rng.randrange(len(eqs))]
                ops.append({'op': 'add_obj', 'eq': eid, 'tobj': tid, 'via': 'sector' if kind == 'sector' else 'equation'})
            continue
        if r < 0.14:
            lid = 'l%d' % len(lists)
            n = rng.randint(1, 5)
            ops.append({'op': 'join', 'id': lid, 'terms': [rng.choice(JOIN_TERMS) for _ in range(n)]})
            lists.append(lid)
            continue
        if r < 0.17 and lists:
            ops.append({'op': 'join_again', 'list': rng.choice(lists)})
            continue
        if not eqs:
            continue
        eid, kind = eqs[rng.randrange(len(eqs))]
        if kind == 'sector' and r > 0.93:
            ops.append({'op': 'set_rhs', 'eq': eid, 'rhs': rng.choice(LEADING)})
            continue
        # term to add: mostly fresh atoms, sometimes exactly the leading expression / an earlier term
        q = rng.random()
        body = atom(rng)
        if q < 0.25:
            prev = [o for o in ops if o.get('id') == eid or o.get('eq') == eid]
            cand = []
            for o in prev:
                if o['op'] == 'sector_var':
                    cand.append(o['eqn'])
                elif o['op'] == 'new' and o['rhs_kind'] == 'str':
                    cand.append(o['rhs'])
                elif o['op'] in ('add', 'sector_add'):
                    cand.append(o.get('body', o['term']))
                elif o['op'] == 'set_rhs':
                    cand.append(o['rhs'])
            import re
            simple = re.compile(r'^[A-Za-z_0-9.]+([*/][A-Za-z_0-9.]+)?$')
            cand = [c.replace(' ', '') for c in cand if c and simple.match(c.replace(' ', ''))]
            if cand:
                body = rng.choice(cand)
        term = spell(rng, body)
        if kind == 'sector':
            ops.append({'op': 'sector_add', 'eq': eid, 'term': term, 'body': body})
        else:
            ops.append({'op': 'add', 'eq': eid, 'term': term, 'body': body})
    return {'kind': 'OBJ', 'ops': ops}


def list_paths(case):
    return [('ops',)]


def simplify(case):
    for i, o in enumerate(case['ops']):
        if o['op'] in ('add', 'sector_add') and o['term'] != o.get('body'):
            c = core.deep_copy(case)
            c['ops'][i]['term'] = o.get('body', o['term'])
            yield c
        if o['op'] == 'join' and len(o['terms']) > 1:
            for j in range(len(o['terms'])):
                c = core.deep_copy(case)
                del c['ops'][i]['terms'][j]
                yield c


simplifiers = (simplify,)


def op_shape(o):
    if o['op'] in ('add', 'sector_add'):
        t = o['term'].replace(' ', '')
        body = o.get('body', '')
        return o['op'] + ':' + t.replace(body, 'B') + ':' + ('prod' if ('*' in body or '/' in body) else 'atom')
    if o['op'] == 'new':
        return 'new:' + o['rhs_kind'] + ':' + str(o.get('rhs'))[0:12]
    if o['op'] == 'sector_var':
        return 'sv:' + o['eqn']
    if o['op'] == 'join':
        return 'join:%d' % len(o['terms'])
    return o['op']


def execute(case):
    core.import_sut()
    from sfc_models.equation import Equation, Term
    from sfc_models.models import Model, Country
    from sfc_models.sector import Sector
    from sfc_models.utils import create_equation_from_terms
    rng = core.stream(core.digest(case['ops']).__hash__() if False else int(core.digest(case['ops']), 16), 'valuations')
    viol = []
    stats = {'runs': 1, 'ops': 0, 'accepted': 0, 'rejected': 0, 'probes': {}}
    objs = {}     # id -> ('eq', Equation) | ('sec', sector, name)
    model = {}    # id -> list of expression texts whose values are summed
    lists = {}    # id -> (live list object, original copy)
    terms = {}    # id -> (Term object owned by the caller, text, constant and text at creation)
    sector = None
    all_names = set(NAMES)
    for o in case['ops']:
        for key in ('rhs', 'eqn', 'term', 'lhs'):
            if isinstance(o.get(key), str):
                all_names.update(V.names_in(o[key].split('=', 1)[-1]))
        for t in (o.get('terms') or []) + (o['rhs'] if isinstance(o.get('rhs'), list) else []):
            all_names.update(V.names_in(t))
    vals = V.make_valuations(all_names, rng, 8)

    def rhs_of(eid):
        o = objs[eid]
        if o[0] == 'eq':
            return o[1].RHS()
        return o[1].EquationBlock[o[2]].RHS()

    def want_fn(eid):
        texts = [t for t in model[eid] if t.strip() != '']
        return (lambda env: sum(V.ev(t, env) for t in texts)), (lambda env: sum(abs(V.ev(t, env)) for t in texts))

    def check_all(after):
        for eid in sorted(objs):
            txt = rhs_of(eid)
            w, a = want_fn(eid)
            bad = V.same_value(txt, w, vals, a)
            if bad is not None:
                kind = 'rhs-not-an-expression' if 'error' in bad else 'value-not-preserved'
                cls = classify(eid, after)
                viol.append(core.violation(ID, kind, kind + ':' + cls, equation=eid, rendered=txt,
                                           summed=model[eid], after_op=after, **{k: v for k, v in bad.items() if k != 'text'}))
                return False
            o = objs[eid]
            if o[0] == 'eq':
                s = str(o[1])
                core_part = s.split('=', 1)[1].split(' # ')[0]
                if core_part != txt:
                    viol.append(core.violation(ID, 'str-differs-from-rhs', 'str-differs-from-rhs', s=s, rhs=txt))
                    return False
        return True

    def classify(eid, after):
        o = after
        if o['op'] in ('add', 'sector_add'):
            lead = model[eid][0] if model[eid] else ''
            if o.get('body', '').replace(' ', '') == lead.replace(' ', '') and objs[eid][0] == 'sec':
                return 'term-equals-opaque-leading-expression'
            if any(o.get('body', '').replace(' ', '') == t.replace(' ', '') for t in model[eid][0:1]):
                return 'term-equals-leading-expression'
            return 'add-term'
        return o['op']

    for o in case['ops']:
        stats['ops'] += 1
        op = o['op']
        try:
            if op == 'new':
                if o['rhs_kind'] == 'none':
                    e = Equation(o['lhs'])
                    if '=' in o['lhs']:
                        model[o['id']] = [o['lhs'].split('=', 1)[1]]
                    else:
                        model[o['id']] = []
                elif o['rhs_kind'] == 'list':
                    e = Equation(o['lhs'], 'desc', list(o['rhs']))
                    model[o['id']] = list(o['rhs'])
                else:
                    e = Equation(o['lhs'], 'desc', o['rhs'])
                    model[o['id']] = [o['rhs']]
                objs[o['id']] = ('eq', e)
                stats['accepted'] += 1
            elif op == 'sector_var':
                if sector is None:
                    m = Model()
                    c = Country(m, 'CO')
                    sector = Sector(c, 'SEC', has_F=False)
                sector.AddVariable(o['name'], 'desc', o['eqn'])
                objs[o['id']] = ('sec', sector, o['name'])
                model[o['id']] = [o['eqn']]
                stats['accepted'] += 1
            elif op in ('add', 'sector_add'):
                if o['eq'] not in objs:
                    continue
                before = rhs_of(o['eq'])
                try:
                    if op == 'add':
                        objs[o['eq']][1].AddTerm(o['term'])
                    else:
                        objs[o['eq']][1].AddTermToEquation(objs[o['eq']][2], o['term'])
                    model[o['eq']].append(o['term'])
                    stats['accepted'] += 1
                except Exception as ex:   # noqa
                    stats['rejected'] += 1
                    if rhs_of(o['eq']) != before:
                        viol.append(core.violation(ID, 'rejected-op-changed-equation', 'rejected-op-changed-equation',
                                                   op=o, before=before, after=rhs_of(o['eq'])))
                        break
                    t_ = o['term'].replace(' ', '')
                    if t_[0:2] in ('--', '+-', '-+', '++'):
                        stats['probes']['double_sign_rejected'] = 1
                        continue
                    viol.append(core.violation(ID, 'valid-term-rejected', 'valid-term-rejected:' + type(ex).__name__,
                                               op=o, error=str(ex)[0:100]))
                    break
            elif op == 'mkterm':
                t = Term(o['term'])
                terms[o['id']] = (t, o['term'], t.Constant, t.Term)
            elif op == 'add_obj':
                if o['eq'] not in objs or o['tobj'] not in terms:
                    continue
                t, text, c0, t0 = terms[o['tobj']]
                try:
                    if o['via'] == 'sector':
                        objs[o['eq']][1].AddTermToEquation(objs[o['eq']][2], t)
                    else:
                        objs[o['eq']][1].AddTerm(t)
                    model[o['eq']].append(text)
                    stats['accepted'] += 1
                    stats['probes']['term_object_added'] = 1
                except Exception as ex:   # noqa
                    stats['rejected'] += 1
                if (t.Constant, t.Term) != (c0, t0):
                    viol.append(core.violation(ID, 'caller-term-object-modified', 'caller-term-object-modified',
                                               term=text, constant_before=c0, constant_after=t.Constant))
                    break
            elif op == 'set_rhs':
                if o['eq'] not in objs:
                    continue
                objs[o['eq']][1].SetEquationRightHandSide(objs[o['eq']][2], o['rhs'])
                model[o['eq']] = [o['rhs']]
                stats['accepted'] += 1
            elif op in ('join', 'join_again'):
                if op == 'join':
                    live = list(o['terms'])
                    lists[o['id']] = (live, list(o['terms']))
                    lid = o['id']
                else:
                    if o['list'] not in lists:
                        continue
                    lid = o['list']
                    stats['probes']['list_reused'] = 1
                live, orig = lists[lid]
                out = create_equation_from_terms(live)
                texts = list(orig)
                bad = V.same_value(out, lambda env: sum(V.ev(t, env) for t in texts), vals,
                                   lambda env: sum(abs(V.ev(t, env)) for t in texts))
                if bad is not None:
                    first = orig[0].strip()
                    cls = 'interior-plus-in-first-term' if '+' in first[1:] else 'other'
                    kind = 'join-not-an-expression' if 'error' in bad else 'join-sum-not-preserved'
                    viol.append(core.violation(ID, kind, kind + ':' + cls, terms=orig, joined=out,
                                               **{k: v for k, v in bad.items() if k != 'text'}))
                    break
                if live != orig:
                    viol.append(core.violation(ID, 'caller-list-modified', 'caller-list-modified', before=orig, after=list(live)))
                    break
                stats['accepted'] += 1
        except Exception as ex:   # noqa  - constructor-level rejection of a whole op
            stats['rejected'] += 1
            continue
        if not check_all(o):
            break
    shapes = [op_shape(o) for o in case['ops']]
    return {'violations': viol, 'stats': stats, 'sig': core.digest(shapes), 'digest': core.digest([shapes, len(viol)]),
            'nontrivial': stats['accepted'] >= 3}
