"""C11 - unsolvable or invalid input fails loudly and in bounded work."""
import keyword
import math
import builtins

from .. import core, eqn, eqncases
from ..blockgen import gen_block

ID = 'C11'
RUNS = {'quick': 6000, 'thorough': 400000}
WALL_CAP = {'quick': 60, 'thorough': 1500}
BLOCK = 50
RULE = ('runs = seeded EQN sessions driven period by period (snapshot after every solved period): systems that are '
        'contractive, expansive, oscillating, overflowing, with transient/persistent division-by-zero and domain '
        'errors (natural and injected through chaos()), iteration caps 0..5 and larger, aborts at arbitrary sweeps; '
        'oracle = error class, sweeps in the failing period <= cap+1 (counted by tick()), prefix identical to the '
        'snapshot and rectangular; contraction (factor <= 0.8, default cap, tol >= 1e-8) must be solved; reserved / '
        'shadowing names must be rejected before numbers exist. distinct = distinct (block shape, drive, fired '
        'faults, cap, outcome) among runs that failed in the solve phase, were contraction runs or misuse runs')
COMPONENTS = {'real': ['sfc_models.equation_solver.EquationSolver', 'sfc_models.equation_parser.EquationParser',
                       'sfc_models.models / sector (misuse sub-population)'],
              'stub': ['chaos()/tick() via AddFunction']}
ASSUMPTIONS = ['sweeps are counted by a tick() call placed in a self-referencing equation',
               'the contraction factor is computed by the generator from the coefficients it drew (sup-norm row sums)',
               'for injected exceptions the solver does not know (OverflowError, ArithmeticError, SimAbort) only '
               'prefix values are checked, not the error class']

def list_paths(case):
    return [] if case.get('kind') == 'ECON_MISUSE' else eqncases.list_paths(case)


def _simp(case):
    if case.get('kind') == 'ECON_MISUSE':
        return
    for f in eqncases.simplifiers:
        for c in f(case):
            yield c


simplifiers = (_simp,)


def valid(case):
    return True if case.get('kind') == 'ECON_MISUSE' else eqncases.valid(case)

PROFILES = [('cap_small', 3), ('hazard', 5), ('chaos', 5), ('expansive', 3), ('mixed', 2)]
ABORT_KINDS = ('eval_overflow_abort', 'eval_arith_abort', 'eval_sim_abort')

BAD_NAMES = sorted(set(['self', 'None', 'k'] + keyword.kwlist + dir(builtins) + dir(math)))
BAD_NAMES = [n for n in BAD_NAMES if n.isidentifier() and not n.startswith('__')]


ECON_MISUSE = ['dup_country', 'dup_sector', 'dunder_local', 'no_supplier', 'ambiguous_supplier', 'cross_currency_no_ext']


def generate_econ_misuse(seed, S):
    """Ill-formed declarations at the model level: each must be rejected with an error (when declared or by main())
    before any numbers exist, and a refused market must not have booked anything on its demanders."""
    from .. import econgen
    kind = S['faults'].choice(ECON_MISUSE)
    fam = 'multi_currency' if kind == 'cross_currency_no_ext' else S['swarm'].choice(['closed', 'capitalists', 'closed_fin'])
    ops, info = econgen.gen_program(seed, family=fam, tight=False, T=2)
    e = info['economies'][0]
    main_i = [i for i, o in enumerate(ops) if o['op'] == 'main'][0]
    # after every object the ill-formed declarations refer to exists (a multi-output business is declared after
    # its markets): an op on a handle that does not exist yet is a no-op and the program would be well formed
    made = [i for i, o in enumerate(ops) if o.get('id') in (e['good'], e['hh'], e.get('bus'), e.get('gov'))]
    pos = S['faults'].randint(max(made) + 1, main_i)
    extra = []
    if kind == 'dup_country':
        extra = [{'op': 'Country', 'id': 'cdup', 'model': info['model'], 'code': e['names']['code'], 'currency': None}]
    elif kind == 'dup_sector':
        extra = [{'op': 'Sector', 'id': 'sdup', 'country': e['country'], 'code': S['faults'].choice([e['names']['HH'], e['names']['GOOD'], e['names']['TF']]), 'has_F': True}]
    elif kind == 'dunder_local':
        extra = [{'op': 'AddVariable', 'sector': e['hh'], 'name': S['faults'].choice(['BAD__NAME', 'X__', '__Y']), 'eqn': '1.0'}]
    elif kind == 'no_supplier':
        extra = [{'op': 'Market', 'id': 'mx', 'country': e['country'], 'code': 'XTRA'},
                 {'op': 'AddVariable', 'sector': e['hh'], 'name': 'DEM_XTRA', 'eqn': '1.5'}]
    elif kind == 'ambiguous_supplier':
        extra = [{'op': 'Market', 'id': 'mx', 'country': e['country'], 'code': 'XTRA'},
                 {'op': 'AddVariable', 'sector': e['hh'], 'name': 'DEM_XTRA', 'eqn': '1.5'},
                 {'op': 'AddVariable', 'sector': e['bus'], 'name': 'SUP_XTRA', 'eqn': ''},
                 {'op': 'AddVariable', 'sector': e['gov'], 'name': 'SUP_XTRA', 'eqn': ''}]
    elif kind == 'cross_currency_no_ext':
        ext = [o['id'] for o in ops if o['op'] == 'ExternalSector']
        xr = [o['id'] for o in ops if o['op'] == 'GetSector' and o['country'] in ext]
        ops = [o for o in ops if o['op'] != 'ExternalSector' and o.get('id') not in xr and o.get('sector') not in xr
               and o.get('gold') not in xr and o['op'] != 'SetGoldPurchases']
        if not any(o['op'] == 'RegisterCashFlow' for o in ops):
            kind = 'dunder_local'
            extra = [{'op': 'AddVariable', 'sector': e['hh'], 'name': 'BAD__NAME', 'eqn': '1.0'}]
        main_i = [i for i, o in enumerate(ops) if o['op'] == 'main'][0]
        pos = main_i
    ops = ops[0:pos] + extra + ops[pos:]
    if kind in ('no_supplier', 'ambiguous_supplier', 'cross_currency_no_ext') and S['faults'].random() < 0.5:
        # the caller catches the rejection and simply runs the same model again: it is still ill-formed
        ops.append({'op': 'main', 'model': info['model']})
    return {'kind': 'ECON_MISUSE', 'profile': 'econ_misuse', 'ops': ops, 'expect': {'misuse': kind, 'demander': e['hh']},
            'block': {'eqs': [], 'lags': [], 'ics': [], 'exo': [], 'maxtime': 2, 'err_tol': None}, 'knobs': {}, 'drive': 'mono',
            'faults': [], 'meta': {}}


def execute_econ_misuse(case):
    from .. import econ
    sess = econ.run_program(case['ops'])
    viol = []
    kind = case['expect']['misuse']
    stats = {'runs': 1, 'profile': {'econ_misuse': 1}, 'probes': {'econ_misuse_' + kind: 1}, 'outcome': {}}
    mh = [o['model'] for o in case['ops'] if o['op'] == 'main'][0]
    if len([o for o in case['ops'] if o['op'] == 'main']) > 1:
        stats['probes']['rejected_model_run_again'] = 1
    out, msg = econ.model_outcome(sess, mh)
    rejected_at = 'declaration' if sess.errors and sess.errors[0][1]['op'] != 'main' else ('main' if out != 'ok' else None)
    stats['misuse_rejected_with'] = {(sess.errors[0][2] if sess.errors else out): 1}
    if rejected_at is None:
        viol.append(core.violation(ID, 'misuse-accepted', 'misuse-accepted:' + kind, misuse=kind))
    else:
        ts = econ.series_of(sess, mh) if mh in sess.H else {}
        if rejected_at == 'main' and any(len(v) > 0 for v in ts.values()):
            viol.append(core.violation(ID, 'misuse-left-numbers', 'misuse-left-numbers:' + kind, misuse=kind, series=sorted(ts)[0:4]))
        if kind in ('no_supplier', 'ambiguous_supplier') and not viol and case['expect']['demander'] in sess.H:
            # the refused market has not booked anything on its would-be demanders
            frhs = sess.H[case['expect']['demander']].EquationBlock['F'].RHS()
            if 'DEM_XTRA' in econ.names_in_rhs(frhs):
                viol.append(core.violation(ID, 'refused-market-half-applied', 'refused-market-half-applied:' + kind,
                                           demander_F=frhs[0:160]))
    return {'violations': viol, 'stats': stats, 'sig': core.digest([kind, [o['op'] for o in case['ops']][0:40]]),
            'digest': core.digest([(i, n, o) for i, n, o in sess.log]), 'nontrivial': True}


def generate(seed, tier):
    S = core.Streams(seed)
    r = S['swarm'].random()
    if r > 0.95:
        return generate_econ_misuse(seed, S)
    if r < 0.25:
        # success direction: plain contraction, default cap, tolerance >= 1e-8, no faults
        rng = S['topology']
        T = S['knobs'].randint(1, 8)
        n = rng.randint(1, 12)
        mag = rng.choice([1.0, 50.0, 300.0])
        block, meta = gen_block(rng, 'contractive', T=T, n=n, rich=False, allow_user_t=False, const_mag=mag,
                                tol_text=S['knobs'].choice([None, '1e-8', '1e-6', '1e-4', '.001']))
        knobs = {'reduction': S['knobs'].random() < 0.5, 'tol_param': S['knobs'].choice([None, None, 1e-8, 1e-6, 1e-3]),
                 'cap': None, 'trace_step': None, 'maxtime_attr': None, 'tick_var': None}
        if S['knobs'].random() < 0.5:
            tv = eqncases.ensure_cycle_var(block, rng)
            eqncases.wrap_function(block, rng, 'tick', target=tv)
            knobs['tick_var'] = tv
        return {'kind': 'EQN', 'profile': 'contraction_must_solve', 'drive': 'step', 'faults': [],
                'expect': {'must_solve': True}, 'block': block, 'knobs': knobs,
                'meta': {'q': meta['q'], 'n': meta['n'], 'nonlinear': meta['nonlinear']}}
    if r < 0.35:
        # misuse: reserved / shadowing variable names
        rng = S['topology']
        T = S['knobs'].randint(1, 4)
        block, meta = gen_block(rng, 'contractive', T=T, n=rng.randint(1, 3), rich=False, allow_user_t=False)
        bad = BAD_NAMES[S['faults'].randrange(len(BAD_NAMES))]
        where = S['faults'].choice(['lhs', 'lhs', 'exo', 'lag', 'token'])
        if where == 'lhs':
            block['eqs'].append([bad, '1.0'])
        elif where == 'exo':
            block['exo'].append([bad, '[1.0,] * %d' % (T + 1)])
        elif where == 'lag':
            block['lags'].append([bad, block['eqs'][0][0], 'k'])
        else:
            # token usable as a function name is legal for a few builtins; only take the rejected set
            ok_tokens = ('float', 'max', 'min', 'sum', 'pow', 'abs', 'round')
            if bad in ok_tokens or bad in dir(math) or bad == 'k':
                block['eqs'].append([bad, '1.0'])
                where = 'lhs'
            else:
                block['eqs'][0][1] += ' + 0.0*%s' % bad
        knobs = {'reduction': S['knobs'].random() < 0.5, 'tol_param': None, 'cap': None, 'trace_step': None,
                 'maxtime_attr': None, 'tick_var': None}
        return {'kind': 'EQN', 'profile': 'misuse_name', 'drive': S['knobs'].choice(['mono', 'step']), 'faults': [],
                'expect': {'misuse': 'name:' + where, 'bad': bad}, 'block': block, 'knobs': knobs, 'meta': {}}
    if r < 0.43:
        # the optional initial steady-state search runs first (on a copy, with its own cap of 1000);
        # afterwards a period of the real run cannot converge: the user's cap must still be the bound
        rng = S['topology']
        T = S['knobs'].randint(2, 4)
        g = round(rng.uniform(5, 40), 1)
        block = {'eqs': [['y', 'tick(0.5*c + %s)' % repr(g)], ['c', 'chaos(0.3*y + 0.2*LAG_w)'], ['w', '0.8*LAG_w + 0.1*y']],
                 'lags': [['LAG_w', 'w', 'k']], 'ics': [['w', repr(round(rng.uniform(0, 50), 1))]], 'exo': [],
                 'maxtime': T, 'err_tol': None}
        cap = S['faults'].choice([20, 35, 60, 150])
        knobs = {'reduction': S['knobs'].random() < 0.5, 'tol_param': 1e-10, 'cap': cap, 'trace_step': None,
                 'maxtime_attr': None, 'tick_var': 'y',
                 'steady': {'T': S['knobs'].choice([60, 100]), 'tol': 1e-3, 'excluded': ['t']}}
        # chaos() calls of the real run only are counted (the search works on a deep copy): fail from period p on
        p = S['faults'].randint(1, T)
        faults = [{'kind': S['faults'].choice(['eval_oscillate', 'eval_oscillate', 'eval_zdiv', 'eval_domain']), 'at': 1 + (p - 1) * 15,
                   'count': 10 ** 9}]
        return {'kind': 'EQN', 'profile': 'steady_then_fail', 'drive': 'step', 'faults': faults, 'expect': {},
                'block': block, 'knobs': knobs, 'meta': {}}
    case = eqncases.gen_case(seed, PROFILES, tier)
    if S['swarm'].random() < 0.8:
        case['drive'] = 'step'
    if case['knobs'].get('tick_var') is None:
        tv = eqncases.ensure_cycle_var(case['block'], S['topology'])
        eqncases.wrap_function(case['block'], S['topology'], 'tick', target=tv)
        case['knobs']['tick_var'] = tv
    case['knobs']['trace_step'] = None if S['swarm'].random() < 0.8 else case['knobs'].get('trace_step')
    return case


def execute(case):
    if case.get('kind') == 'ECON_MISUSE':
        return execute_econ_misuse(case)
    drive = case.get('drive', 'step')
    rec = eqn.run_block(case['block'], case['knobs'], case.get('faults', ()), drive)
    viol = []
    st = eqncases.base_stats(case, rec)
    exp = case.get('expect', {})
    nontrivial = False
    if exp.get('misuse'):
        nontrivial = True
        if rec['outcome'] == 'ok':
            viol.append(core.violation(ID, 'misuse-accepted', 'misuse-accepted:' + exp['misuse'], bad=exp.get('bad')))
        elif any(len(v) > 0 for v in rec['series'].values()) and \
                core.canon_json(rec['series']) != core.canon_json(rec.get('prelude_series')):
            viol.append(core.violation(ID, 'misuse-left-numbers', 'misuse-left-numbers:' + exp['misuse'],
                                       bad=exp.get('bad')))
        st['misuse_rejected_with'] = {rec['outcome']: 1}
    elif exp.get('must_solve'):
        nontrivial = True
        if rec['outcome'] != 'ok':
            viol.append(core.violation(ID, 'contraction-not-solved', 'contraction-not-solved:' + rec['outcome'],
                                       outcome=rec['outcome'], message=rec['message'], q=case['meta'].get('q'),
                                       failed_period=rec['failed_period'], ticks=rec['ticks']))
        if rec['ticks']:
            st['max_sweeps_contraction'] = {'max': 0}
            st['probes']['contraction_sweeps_over_200'] = 1 if max(rec['ticks'].values()) > 200 else 0
    else:
        fired_abort = any(k in rec['fired'] for k in ABORT_KINDS)
        if rec['outcome'] != 'ok' and rec['phase'] == 'solve':
            nontrivial = True
            cap = case['knobs'].get('cap')
            cap = 400 if cap is None else cap
            if fired_abort and rec['outcome'] in ('OverflowError', 'ArithmeticError', 'SimAbort'):
                # an exception the solver does not claim to handle: only the solved prefix must survive
                p = rec['failed_period']
                before = rec['snapshots'].get(p - 1) if (drive == 'step' and p) else None
                if before is not None:
                    for v in sorted(before):
                        now = rec['series'].get(v)
                        if now is None or now[0:len(before[v])] != before[v]:
                            if not all(eqn.same(a, b) for a, b in zip(now or [], before[v])) or now is None:
                                viol.append(core.violation(ID, 'prefix-values-changed-by-abort',
                                                           'prefix-values-changed-by-abort', var=v))
                                break
                st['probes']['abort_propagated'] = 1
            else:
                viol.extend(eqn.check_c11_failure(case['block'], case['knobs'], rec, drive, prop=ID, cap=cap))
                st['probes']['iteration_failure_checked'] = 1
                if rec['failed_period'] and rec['failed_period'] > 1:
                    st['probes']['failure_after_solved_periods'] = 1
        # contrapositive of the first clause: a period that is reported has met the tolerance
        if not viol:
            for v in eqn.check_c02(case['block'], case['knobs'], rec, drive, prop=ID):
                if v['kind'] == 'residual-exceeds-tolerance':
                    v['kind'] = 'reported-without-meeting-tolerance'
                    v['signature'] = 'reported-without-meeting-tolerance'
                    viol.append(v)
                    nontrivial = True
                elif v['kind'] == 'nonfinite-reported':
                    # a diverged (overflowed) period handed back as solved: the loudest failure there is, silenced
                    v['kind'] = 'diverged-reported-as-solved'
                    v['signature'] = 'diverged-reported-as-solved'
                    viol.append(v)
                    nontrivial = True
        # sweep bound also on success
        cap = case['knobs'].get('cap')
        cap = 400 if cap is None else cap
        for p, n in rec['ticks'].items():
            if p >= 1 and n > cap + 1 and not viol:
                viol.append(core.violation(ID, 'sweep-bound-exceeded', 'sweep-bound-exceeded', sweeps=n, cap=cap, period=p))
    return {'violations': viol, 'stats': st, 'sig': eqncases.case_sig(case, rec),
            'digest': eqn.series_digest(rec), 'nontrivial': nontrivial}
