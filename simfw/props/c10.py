"""C10 - exogenous paths, initial conditions and horizon are honoured verbatim."""
from .. import core, eqn, eqncases
from ..blockgen import gen_block, gen_exo_text

ID = 'C10'
RUNS = {'quick': 8000, 'thorough': 500000}
WALL_CAP = {'quick': 60, 'thorough': 1500}
BLOCK = 50
RULE = ('runs = seeded EQN sessions whose blocks vary every exogenous spelling (list, tuple, string expression, '
        'float scalar, longer than needed), initial conditions on simultaneous / lagged / decorative / constant '
        'variables and the source of the horizon (MaxTime line, solver.MaxTime before parsing, neither), plus a '
        'misuse population (series too short, unparsable exogenous or initial value); oracle = read-back equals '
        'what was supplied, lag[k]==source[k-1], lengths == horizon+1, misuse rejected with no numbers. '
        'distinct = distinct (block shape, horizon source, misuse kind, outcome) among runs that produced series '
        'or were misuse runs')
COMPONENTS = {'real': ['sfc_models.equation_solver.EquationSolver', 'sfc_models.equation_parser.EquationParser'],
              'stub': ['tick() via AddFunction (identity)']}
ASSUMPTIONS = ['exogenous and initial-condition texts are evaluated independently with Python eval + math',
               'steady-state initialisation is off (as the property states)']

def list_paths(case):
    if case.get('kind') == 'ECON_IC':
        return []
    return eqncases.list_paths(case)


def _simp(case):
    if case.get('kind') == 'ECON_IC':
        return
    for f in eqncases.simplifiers:
        for c in f(case):
            yield c


simplifiers = (_simp,)
def valid(case):
    return True if case.get('kind') == 'ECON_IC' else eqncases.valid(case)

MISUSE = ['exo_short', 'exo_unparsable', 'ic_unparsable', 'exo_short_by_attr']


def generate_econ_ic(seed, S):
    """Model-level initial conditions (by full code and through the sector object), including exact zeros on
    variables whose k=0 value would otherwise be non-zero."""
    from .. import econgen
    fam = S['swarm'].choice(['closed', 'capitalists', 'closed_fin'])
    T = S['knobs'].randint(1, 3)
    ops, info = econgen.gen_program(seed, family=fam, tight=False, T=T)
    ops = [o for o in ops if o['op'] != 'AddInitialCondition']
    e = info['economies'][0]
    main_i = [i for i, o in enumerate(ops) if o['op'] == 'main'][0]
    rng = S['params']
    expect = []
    cands = [(e['hh'], e['names']['HH'], 'F'), (e['gov'], e['names']['GOV'], 'F'), (e['bus'], e['names']['BUS'], 'F'),
             (e['hh'], e['names']['HH'], 'AlphaIncome'), (e['hh'], e['names']['HH'], 'AlphaFin'),
             (e['tf'], e['names']['TF'], 'TaxRate'), (e['hh'], e['names']['HH'], 'AfterTax'),
             (e['hh'], e['names']['HH'], 'LAG_F'), (e['gov'], e['names']['GOV'], 'DEM_GOOD')]
    new = []
    for sh, code, var in rng.sample(cands, rng.randint(1, 4)):
        if var == 'DEM_GOOD':
            continue      # exogenous in these programs: initial conditions on exogenous variables are out of scope
        val = rng.choice([0.0, 0.0, round(rng.uniform(-50, 150), 2), float(rng.randint(1, 90)),
                          # values as a program computes them: every digit counts, and small is not zero
                          rng.uniform(-50, 150), 1.0 / rng.randint(3, 97), rng.uniform(1, 9) * 10.0 ** rng.randint(-14, -9),
                          1234.0 + 1.0 / 3.0])
        if rng.random() < 0.5:
            new.append({'op': 'AddInitialCondition', 'by': 'sector', 'sector': sh, 'var': var, 'value': val})
        else:
            new.append({'op': 'AddInitialCondition', 'by': 'code', 'model': info['model'], 'fullcode': code, 'var': var, 'value': val})
        expect.append([code + '__' + var, val])
    if rng.random() < 0.4:
        # re-state an exogenous path: "Overwrites an existing variable definition"
        exo_ops = [o for o in ops if o['op'] == 'SetExogenous']
        if exo_ops:
            o = exo_ops[rng.randrange(len(exo_ops))]
            vals = [round(rng.uniform(1, 50), 1) for _ in range(T + 3)]
            new.append({'op': 'SetExogenous', 'sector': o['sector'], 'var': o['var'], 'value': vals})
    if rng.random() < 0.4:
        # an exogenous path on a variable its sector writes itself when the equations are generated
        stated = set(o['var'] for o in new if o['op'] == 'AddInitialCondition')
        # (an initial condition on an exogenous variable is outside the property's quantifier)
        cands2 = [c_ for c_ in [(e['tf'], 'TaxRate', 0.05, 0.35), (e['hh'], 'AlphaIncome', 0.5, 0.9),
                                (e['hh'], 'AlphaFin', 0.1, 0.45)] if c_[1] not in stated]
        if cands2:
            sh, var, lo, hi = rng.choice(cands2)
            vals = [round(rng.uniform(lo, hi), 3) for _ in range(T + 2)]
            new.append({'op': 'SetExogenous', 'sector': sh, 'var': var, 'value': vals})
    ops = ops[0:main_i] + new + ops[main_i:]
    return {'kind': 'ECON_IC', 'profile': 'econ_ic', 'ops': ops, 'expect': {'ics': expect, 'T': T, 'misuse': None},
            'block': {'eqs': [], 'lags': [], 'ics': [], 'exo': [], 'maxtime': T, 'err_tol': None},
            'knobs': {}, 'drive': 'mono', 'faults': []}


def execute_econ_ic(case):
    from .. import econ
    sess = econ.run_program(case['ops'])
    viol = []
    stats = {'runs': 1, 'profile': {'econ_ic': 1}, 'probes': {}}
    mh = [o['model'] for o in case['ops'] if o['op'] == 'main'][0]
    out, msg = econ.model_outcome(sess, mh)
    stats['outcome'] = {out: 1}
    ts = econ.series_of(sess, mh) if mh in sess.H else {}
    if out == 'ok':
        T = case['expect']['T']
        last = {}
        for name, val in case['expect']['ics']:
            last[name] = val       # a later condition on the same variable wins (as lines of the block do)
        for name, val in last.items():
            if name not in ts:
                viol.append(core.violation(ID, 'variable-missing', 'variable-missing', var=name))
                break
            if ts[name][0] != float(val):
                viol.append(core.violation(ID, 'initial-condition-not-honoured', 'initial-condition-not-honoured:model-level',
                                           var=name, got=ts[name][0], want=float(val)))
                break
            if float(val) == 0.0:
                stats['probes']['explicit_zero_initial_condition'] = 1
        # exogenous paths given to SetExogenous (list, tuple, string) are read back verbatim
        from .. import econref as R
        d = R.declare(case['ops'])
        last_exo = {}
        for (sh, var, value, as_tuple) in d.exogenous:
            last_exo[(sh, var)] = (sh, var, value, as_tuple)
        if len(last_exo) != len(d.exogenous):
            stats['probes']['exogenous_restated'] = 1
        for (sh, var, value, as_tuple) in last_exo.values():
            if sh not in d.sectors or viol:
                continue
            name = R.full_code(d, sh) + '__' + var
            vals = list(eval(value, {'__builtins__': {}}, {})) if isinstance(value, str) else list(value)
            if name not in ts or ts[name] != vals[0:T + 1]:
                viol.append(core.violation(ID, 'exogenous-not-verbatim', 'exogenous-not-verbatim:model-level', var=name,
                                           got=ts.get(name), want=vals[0:T + 1]))
                break
            stats['probes']['model_exogenous_read_back'] = 1
        for name, ser in ts.items():
            if len(ser) != T + 1 and not viol:
                viol.append(core.violation(ID, 'length-mismatch', 'length-mismatch', var=name, got=len(ser), want=T + 1))
                break
    return {'violations': viol, 'stats': stats, 'sig': core.digest([sorted(n for n, _ in case['expect']['ics']), out]),
            'digest': core.digest([out, ts]), 'nontrivial': out == 'ok'}


def generate(seed, tier):
    S = core.Streams(seed)
    if S['swarm'].random() < 0.04:
        return generate_econ_ic(seed, S)
    rng = S['topology']
    T = S['knobs'].randint(0, 9)
    knobs, tol_text = eqncases.pick_knobs(S['knobs'], T, tol_lo=1e-10)
    block, meta = gen_block(rng, 'contractive', T=T, tol_text=tol_text)
    # make sure exogenous variables exist most of the time, in every spelling
    if not block['exo'] or rng.random() < 0.5:
        for i in range(rng.randint(1, 3)):
            name = 'h%d' % i
            txt, vals, form = gen_exo_text(rng, T)
            block['exo'].append([name, txt])
            # use it somewhere
            cands = [j for j, (v, _) in enumerate(block['eqs']) if v in meta['sim']]
            j = cands[rng.randrange(len(cands))]
            block['eqs'][j][1] += ' + 0.5*%s' % name
    case = {'kind': 'EQN', 'profile': 'c10', 'drive': S['knobs'].choice(['mono', 'step']), 'faults': [],
            'expect': {'misuse': None}, 'block': block, 'knobs': knobs,
            'meta': {'q': meta['q'], 'n': meta['n'], 'nonlinear': meta['nonlinear']}}
    # horizon source
    r = S['knobs'].random()
    if r < 0.25:
        knobs['maxtime_attr'] = T           # attribute and line agree / attribute overrides
        if S['knobs'].random() < 0.5:
            block['maxtime'] = None
        else:
            block['maxtime'] = T + S['knobs'].choice([0, 3])
            # exogenous must cover whichever is larger only if it is the effective one (attr)
    elif r < 0.30:
        block['maxtime'] = None             # horizon 0: only k=0
        T = 0
    case['expect']['T'] = eqn.horizon_of(block, knobs)
    if S['faults'].random() < 0.25:
        kind = S['faults'].choice(MISUSE)
        Teff = case['expect']['T']
        if kind == 'exo_short':
            if Teff >= 1:
                n = S['faults'].randint(1, Teff)      # needs Teff+1
                form = S['faults'].choice(['list', 'tuple', 'str'])
                if form == 'list':
                    txt = '[' + ', '.join(repr(float(i)) for i in range(n)) + ']'
                elif form == 'tuple':
                    txt = '(' + ', '.join(repr(float(i)) for i in range(n)) + ',)'
                else:
                    txt = '[2.5,] * %d' % n
                block['exo'].append(['hshort', txt])
                case['expect']['misuse'] = kind
        elif kind == 'exo_short_by_attr':
            if block['exo']:
                longest = max(len(list(v)) if not isinstance(v, float) else 10 ** 6
                              for v in eqn.exo_values(block, 0).values() if not isinstance(v, Exception))
                scal = all(isinstance(v, float) for v in eqn.exo_values(block, 0).values())
                if not scal and longest < 10 ** 6:
                    knobs['maxtime_attr'] = longest + S['faults'].randint(0, 3)
                    short = [v for v in eqn.exo_values(block, 0).values()
                             if not isinstance(v, (float, Exception)) and len(list(v)) < knobs['maxtime_attr'] + 1]
                    if short:
                        case['expect']['misuse'] = kind
                    else:
                        knobs['maxtime_attr'] = None
        elif kind == 'exo_unparsable':
            txt = S['faults'].choice(['[1.0, 2.0', 'undefined_name_q + 1.0', '[1.0,] * ', '1.0/0.0', 'sqrt(-1.0)'])
            block['exo'].append(['hbad', txt])
            case['expect']['misuse'] = kind
        elif kind == 'ic_unparsable':
            v = block['eqs'][S['faults'].randrange(len(block['eqs']))][0]
            block['ics'] = [ic for ic in block['ics'] if ic[0] != v]
            txt = S['faults'].choice(['abc_undefined', '1.0 +', '[1.0, 2.0]', '1.0/0.0', '"text"'])
            block['ics'].append([v, txt])
            case['expect']['misuse'] = kind
        case['expect']['T'] = eqn.horizon_of(block, knobs)
    if S['swarm'].random() < 0.2:
        # solver reuse: another block (other names, other horizon) was solved on this solver before
        pre, _m = gen_block(S['prelude'], 'contractive', T=S['prelude'].randint(1, 9), n=2, rich=False, allow_user_t=False)
        import re
        ren = {v: 'pre_' + v for v in eqn.block_vars(pre)}

        def rn(txt):
            return re.sub(r'[A-Za-z_][A-Za-z_0-9]*', lambda m: ren.get(m.group(0), m.group(0)), txt)
        knobs['prelude'] = {'eqs': [[ren[v], rn(r_)] for v, r_ in pre['eqs']], 'lags': [[ren[l], ren[s_], st] for l, s_, st in pre['lags']],
                            'ics': [[ren[v], t_] for v, t_ in pre['ics']], 'exo': [[ren[v], t_] for v, t_ in pre['exo']],
                            'maxtime': pre['maxtime'], 'err_tol': None}
    elif S['swarm'].random() < 0.15 and case['expect']['misuse'] is None and knobs.get('maxtime_attr') is not None:
        # the same text re-submitted after the solver-level horizon was changed (front ends do this)
        knobs['prelude_same'] = S['prelude'].choice([0, 1, 2, knobs['maxtime_attr'] + 2])
    if S['knobs'].random() < 0.5:
        tv = eqncases.ensure_cycle_var(block, rng)
        eqncases.wrap_function(block, rng, 'tick', target=tv)
        knobs['tick_var'] = tv
    if S['swarm'].random() < 0.08 and not eqn.has_user_t(block) and not any(v == 't' for v, _ in block['ics']):
        # an initial condition on the automatic time axis (t = k is still supplied by the parser)
        block['ics'].append(['t', repr(float(S['swarm'].choice([1990, 2010, -3, 1])))])
    if S['swarm'].random() < 0.08 and case['expect']['misuse'] is None:
        knobs['maxtime_attr_late'] = S['swarm'].randint(0, case['expect']['T'] + 1)
    return case


def execute(case):
    if case.get('kind') == 'ECON_IC':
        return execute_econ_ic(case)
    rec = eqn.run_block(case['block'], case['knobs'], case.get('faults', ()), case.get('drive', 'mono'))
    misuse = case['expect'].get('misuse')
    viol = eqn.check_c10(case['block'], case['knobs'], rec, case.get('drive', 'mono'), prop=ID, misuse=misuse)
    st = eqncases.base_stats(case, rec)
    st['misuse'] = {str(misuse): 1}
    if misuse:
        st['misuse_rejected_with'] = {rec['outcome']: 1}
    src = 'attr' if case['knobs'].get('maxtime_attr') is not None else \
        ('line' if case['block'].get('maxtime') is not None else 'none')
    st['horizon_source'] = {src: 1}
    if case['knobs'].get('maxtime_attr_late') is not None:
        st.setdefault('probes', {})['solver_horizon_touched_after_parse'] = 1
    sig = core.digest([eqncases.case_sig(case, rec), src, misuse])
    nontrivial = (rec['outcome'] == 'ok' and len(rec['series']) > 1) or bool(misuse)
    return {'violations': viol, 'stats': st, 'sig': sig, 'digest': eqn.series_digest(rec),
            'nontrivial': nontrivial}
