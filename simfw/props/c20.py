"""C20 - generated stand-alone solver agrees with the in-process solver (GEN sessions)."""
import warnings
import contextlib
import io

from .. import core, eqn, eqncases
from ..blockgen import gen_block, render
from ..simfs import SimFS, SeamPatch

ID = 'C20'
RUNS = {'quick': 6000, 'thorough': 400000}
WALL_CAP = {'quick': 60, 'thorough': 1500}
BLOCK = 50
RULE = ('runs = seeded GEN sessions: a block from the EQN grammar (with / without a user-defined time variable, lags, '
        'initial conditions, exogenous lists, constants, Err_Tolerance / MaxTime lines) or the bundled '
        'GL_machine_generated model is handed to IterativeMachineGenerator.main(file); the file goes through SimFS '
        '(fault free, or with injected open/write/short-write/close failures), is read back and executed in a fresh '
        'module namespace and stepped with its own RunOneStep. Oracle: it imports, constructs and runs every period; at '
        'every k>=1 its values satisfy the block\'s equations (independent evaluator; lags from its own previous '
        'period, exogenous from the supplied paths) within (1+L_i)*Err_Tolerance*4; where the k=0 values of lag sources '
        'coincide with the in-process solver\'s, the two trajectories agree; the table lists t first and every '
        'non-lagged variable once; under a file fault the generator call raises and nothing is executed. distinct = '
        'distinct (block shape, time-axis kind, fault) among runs whose module was generated')
COMPONENTS = {'real': ['deprecated.iterative_machine_generator (template, Generate*)', 'equation_parser', 'base_solver',
                       'deprecated.GL_machine_generated', 'EquationSolver (lock-step twin)'],
              'stub': ['open() -> SimFS', 'loader: exec of the emitted text in a fresh namespace']}
ASSUMPTIONS = ['blocks are contractive so both machines converge; residual bound (1+L_i)*Err_Tolerance*4 (absolute, '
               'the generated machine\'s error measure is an absolute sum)']

list_paths = eqncases.list_paths
valid = eqncases.valid


def generate(seed, tier):
    S = core.Streams(seed)
    rng = S['topology']
    r = S['swarm'].random()
    faults = []
    if S['faults'].random() < 0.12:
        faults.append({'kind': S['faults'].choice(['fs_open_fail', 'fs_write_fail', 'fs_short_write', 'fs_close_fail']),
                       'path_contains': 'gen/', 'nth': 1})
    if r < 0.06:
        return {'kind': 'GEN', 'bundled': 'SIM', 'faults': faults, 'time_axis': 'default', 'block': None, 'knobs': {}}
    T = S['knobs'].randint(1, 8)
    tol_text = S['knobs'].choice([None, None, '1e-6', '.001', '1e-10'])
    block, meta = gen_block(rng, 'contractive', T=T, n=rng.randint(1, 5), rich=S['swarm'].random() < 0.4,
                            allow_user_t=False, tol_text=tol_text, nonlinear=S['swarm'].random() < 0.3)
    # the generator's quantifier speaks of exogenous *lists*: a float scalar (broadcast by the in-process solver only)
    # is respelled as a list
    for e in block['exo']:
        val = eval(e[1], {'__builtins__': {}}, {})
        if isinstance(val, float):
            e[1] = '[%s,] * %d' % (repr(val), T + 1)
    if S['swarm'].random() < 0.35:
        # the step k is a legal token in user equations (the in-process solver supplies it)
        block['eqs'].append(['trend', '1.0 + 0.1*k'])
        if S['swarm'].random() < 0.5:
            block['eqs'][0][1] += ' + 0.01*k'
    if S['swarm'].random() < 0.12:
        # a parameter written in scientific notation, used as a divisor and read with a lag
        block['eqs'].append(['sc', S['swarm'].choice(['1e2', '2.5e-1', '1E1', '5e-1', '1e+1'])])
        block['eqs'].append(['dv', '%s/sc' % block['eqs'][0][0]])
        if S['swarm'].random() < 0.5:
            block['lags'].append(['LAG_sc', 'sc', 'k'])
            block['eqs'].append(['dl', 'LAG_sc + 1.0'])
    ta = S['swarm'].choice(['default', 'default', 'user_lag', 'user_exo', 'user_const', 'user_k'])
    if ta == 'user_lag':
        block['eqs'].append(['t', 'LAG_t + 1.0'])
        block['lags'].append(['LAG_t', 't', 'k'])
    elif ta == 'user_exo':
        block['exo'].append(['t', '[' + ', '.join(repr(1990.0 + i) for i in range(T + 1)) + ']'])
    elif ta == 'user_const':
        block['eqs'].append(['t', '5.0'])
    elif ta == 'user_k':
        block['eqs'].append(['t', '2010.0 + 0.25*k'])
    case = {'kind': 'GEN', 'bundled': None, 'block': block, 'faults': faults, 'time_axis': ta,
            'knobs': {'reduction': S['knobs'].random() < 0.25}}
    if S['swarm'].random() < 0.1:
        # a model variable that happens to be called like a local of the emitted module's step function (all legal names)
        import re
        pool_v = [v for v, _ in block['eqs'] if v not in ('t',)]
        old_name = pool_v[S['swarm'].randrange(len(pool_v))]
        new_name = S['swarm'].choice(['err', 'cnt', 'new_vector', 'in_vec', 'err', 'cnt', 'val1', 'obj', 'main', 'pprint',
                                      'PrintIterations',
                                      # identifiers outside ASCII (the textbook's own parameter names)
                                      '\u03b11', '\u03b8', 'd\u00e9ficit', '\u03b11',
                                      # these five shadow an attribute / local the emitted class needs (known finding F24)
                                      'orig_vector', 'STEP', 'MaxIterations', 'VariableList', 'Iterator'])
        lag_old, lag_new = 'LAG_' + old_name, 'LAG_' + new_name

        def rn(txt):
            return re.sub(r'[A-Za-z_][A-Za-z_0-9]*',
                          lambda m: {old_name: new_name, lag_old: lag_new}.get(m.group(0), m.group(0)), txt)
        block['eqs'] = [[rn(v), rn(r_)] for v, r_ in block['eqs']]
        block['lags'] = [[rn(l), rn(s_), st] for l, s_, st in block['lags']]
        block['ics'] = [[rn(v), t_] for v, t_ in block['ics']]
        block['exo'] = [[rn(v), t_] for v, t_ in block['exo']]
        case['block'] = block
        case['clash_name'] = new_name
    case['knobs']['run_how'] = S['swarm'].choice(['steps', 'steps', 'main', 'main_twice', 'steps_then_main', 'steps_then_main_twice'])
    case['knobs']['by_hand'] = S['swarm'].randint(1, 3)
    if S['swarm'].random() < 0.12:
        # a small sweep budget configured on the generator: the emitted module must either converge within it or refuse
        # loudly - never hand back the unconverged iterate
        case['knobs']['gen_max_iterations'] = S['swarm'].choice(['2', '4', '8', '15', '40'])
    if S['swarm'].random() < 0.2:
        # the generator object has a history: another block was parsed and generated with it before
        pre, _m = gen_block(S['prelude'], 'contractive', T=S['prelude'].randint(1, 4), n=S['prelude'].randint(1, 4),
                            rich=False, allow_user_t=False)
        for e in pre['exo']:
            val = eval(e[1], {'__builtins__': {}}, {})
            if isinstance(val, float):
                e[1] = '[%s,] * %d' % (repr(val), pre['maxtime'] + 1)
        case['prelude'] = pre
    return case


def simplify(case):
    if case.get('block') is None:
        return
    for c in eqncases.simplify_rhs(dict(case, knobs=dict(case.get('knobs') or {}, tick_var=None))):
        yield c
    if case['block'].get('maxtime', 0) > 1:
        c = core.deep_copy(case)
        c['block']['maxtime'] = 1
        yield c
    if case['block'].get('err_tol') is not None:
        c = core.deep_copy(case)
        c['block']['err_tol'] = None
        yield c
    if case.get('prelude') is not None:
        c = core.deep_copy(case)
        c['prelude'] = None
        yield c


simplifiers = (simplify,)


def comfortably_solvable(block, obj):
    """Plain Jacobi sweeps (sum-of-absolute-changes norm, like the emitted module) for the period the module gave up on,
    from the module's own previous-period values: True iff they reach tol/4 within half the module's sweep cap."""
    try:
        step = int(obj.STEP)
        tol = float(obj.Err_Tolerance)
        cap = int(obj.MaxIterations)
        lagv = {l: s_ for l, s_, _ in block.get('lags', [])}
        exo = set(v for v, _ in block.get('exo', []))
        exov = eqn.exo_values(block, int(obj.MaxTime))
        env = {}
        for v in eqn.block_vars(block):
            if v in lagv:
                continue
            ser = list(getattr(obj, v))
            if len(ser) < step:
                return False
            env[v] = ser[step - 1]
        for l, src in lagv.items():
            env[l] = env[src]
        for xv in exo:
            val = exov.get(xv)
            if isinstance(val, Exception):
                return False
            env[xv] = val if isinstance(val, float) else list(val)[step]
        env['k'] = float(step)
        if hasattr(obj, 't') and 't' not in env:
            env['t'] = float(step)
        unknown = [(v, r) for v, r in block['eqs'] if v not in exo]
        for sweep in range(max(cap // 2, 1)):
            new = {v: eqn.ev(r, env) for v, r in unknown}
            err = sum(abs(new[v] - env[v]) for v, _ in unknown)
            env.update(new)
            if not core.is_finite_number(err):
                return False
            if err <= tol / 4.0:
                return True
        return False
    except Exception:   # noqa
        return False


def execute(case):
    core.import_sut()
    from sfc_models.deprecated.iterative_machine_generator import IterativeMachineGenerator
    viol = []
    stats = {'runs': 1, 'probes': {}, 'time_axis': {case.get('time_axis', '?'): 1}, 'faults_fired': {}, 'periods': 0}
    fs = SimFS(case.get('faults', ()))
    path = 'gen/model.py'
    gen_outcome = 'ok'
    block = case.get('block')
    with SeamPatch(fs):
        try:
            with warnings.catch_warnings():
                warnings.simplefilter('ignore')
                if case.get('bundled'):
                    from sfc_models.deprecated.GL_machine_generated import build_model, model_list
                    g = build_model(case['bundled'])
                    text_in = model_list[case['bundled']]
                else:
                    text_in = render(block)
                    red = bool((case.get('knobs') or {}).get('reduction'))
                    if case.get('prelude') is not None:
                        g = IterativeMachineGenerator(render(case['prelude']), run_equation_reduction=red)
                        g.main('gen/previous.py')
                        g.ParseString(text_in)
                        stats['probes']['generator_reused'] = 1
                    else:
                        g = IterativeMachineGenerator(text_in, run_equation_reduction=red)
                    if (case.get('knobs') or {}).get('gen_max_iterations') is not None:
                        g.MaxIterations = str(case['knobs']['gen_max_iterations'])
                        stats['probes']['small_sweep_budget_on_generator'] = 1
                g.main(path)
        except Exception as ex:   # noqa
            gen_outcome = type(ex).__name__
    for f in fs.fired:
        stats['faults_fired'][f] = stats['faults_fired'].get(f, 0) + 1
    sig = core.digest([case.get('time_axis'), case.get('bundled'), sorted(fs.fired),
                       None if block is None else [sorted(v for v, _ in block['eqs']), len(block['lags']), len(block['exo']),
                                                   len(block['ics']), block.get('err_tol'), block.get('maxtime')]])
    if fs.fired:
        # nothing more is demanded than: the generator call raised (or the fault was a close failure after
        # the text was complete) and no partial module is run
        if gen_outcome == 'ok' and 'fs_close_fail' not in fs.fired:
            viol.append(core.violation(ID, 'file-fault-swallowed', 'file-fault-swallowed:' + fs.fired[0]))
        stats['probes']['generator_failed_under_fs_fault'] = 1
        return {'violations': viol, 'stats': stats, 'sig': sig, 'digest': core.digest([gen_outcome, fs.fired]), 'nontrivial': True}
    if gen_outcome != 'ok':
        viol.append(core.violation(ID, 'generator-failed', 'generator-failed:' + gen_outcome))
        return {'violations': viol, 'stats': stats, 'sig': sig, 'digest': core.digest([gen_outcome]), 'nontrivial': True}
    text = fs.files.get(path)
    if not text or fs.acked.get(path) != text:
        viol.append(core.violation(ID, 'file-not-written', 'file-not-written'))
        return {'violations': viol, 'stats': stats, 'sig': sig, 'digest': core.digest(['nofile']), 'nontrivial': True}
    # load and run the emitted module
    ns = {'__name__': 'generated_model'}
    phase = 'import'
    try:
        with warnings.catch_warnings(), contextlib.redirect_stdout(io.StringIO()):
            warnings.simplefilter('ignore')
            exec(compile(text, path, 'exec'), ns)
            phase = 'construct'
            obj = ns['SFCModel']()
            phase = 'run'
            steps = 0
            how = (case.get('knobs') or {}).get('run_how', 'steps')
            if how in ('steps_then_main', 'steps_then_main_twice'):
                # a few periods stepped by hand, the rest through the module's own main(); a second main() on a finished
                # model has nothing left to do
                for _ in range(min(int((case.get('knobs') or {}).get('by_hand', 1)), obj.MaxTime)):
                    obj.RunOneStep()
                obj.main()
                if how == 'steps_then_main_twice':
                    obj.main()
                steps = obj.STEP
            elif how in ('main', 'main_twice'):
                obj.main()
                if how == 'main_twice':
                    obj.main()
                steps = obj.STEP
            while obj.STEP < obj.MaxTime:
                obj.RunOneStep()
                steps += 1
                if steps > 1000:
                    raise core.HarnessError('generated model does not terminate')
            phase = 'table'
            table = obj.CreateCsvString()
    except core.HarnessError:
        raise
    except Exception as ex:   # noqa
        cls = type(ex).__name__
        cause = 'other'
        if cls == 'NameError' and "'k'" in str(ex):
            cause = 'k-undefined'
        if phase == 'run' and cls == 'ValueError' and 'No Convergence' in str(ex) and block is not None:
            # a loud refusal within the module's own sweep cap. It contradicts "runs without error" only for a block whose
            # fixed point is comfortably within reach of plain sweeps at the stated tolerance (lag dynamics may blow the
            # values up until an absolute 1e-10 is below the floating-point spacing): decided by an independent plain
            # Jacobi reference with half the cap and a quarter of the tolerance
            # (with equation reduction on, the module iterates the *reduced* system, whose sweep map - and speed - is
            # not the submitted block's: the plain-Jacobi reference says nothing about it)
            if bool((case.get('knobs') or {}).get('reduction')) or not comfortably_solvable(block, obj):
                stats['probes']['nonconvergence_inconclusive'] = 1
                return {'violations': [], 'stats': stats, 'sig': sig, 'digest': core.digest([phase, cls, 'inconclusive']),
                        'nontrivial': False}
            cause = 'within-reach-of-plain-sweeps'
        viol.append(core.violation(ID, 'generated-module-failed', 'generated-module-failed:%s:%s:%s' % (phase, cls, cause),
                                   phase=phase, error=cls, message=str(ex)[0:200], time_axis=case.get('time_axis'),
                                   clash_name=case.get('clash_name')))
        return {'violations': viol, 'stats': stats, 'sig': sig, 'digest': core.digest([phase, cls]), 'nontrivial': True}
    stats['periods'] = steps
    stats['probes']['module_ran'] = 1
    if case.get('clash_name'):
        stats['probes']['variable_named_like_a_module_local'] = 1
    if case.get('bundled'):
        # the bundled SIM model: check it against its own block text with the independent parser of this harness
        block = parse_simple_block(text_in)
    T = obj.MaxTime
    tol = float(obj.Err_Tolerance)
    lagv = {l: s for l, s, _ in block.get('lags', [])}
    exo = set(v for v, _ in block.get('exo', []))
    exov = eqn.exo_values(block, T)
    series = {}
    for v in eqn.block_vars(block):
        if v in lagv:
            continue
        if not hasattr(obj, v):
            viol.append(core.violation(ID, 'variable-missing-in-generated-model', 'variable-missing-in-generated-model', var=v))
            return {'violations': viol, 'stats': stats, 'sig': sig, 'digest': core.digest(['missing']), 'nontrivial': True}
        series[v] = list(getattr(obj, v))
    if 't' not in series and hasattr(obj, 't'):
        series['t'] = list(obj.t)
    for v, s in series.items():
        if len(s) != T + 1:
            viol.append(core.violation(ID, 'generated-length-wrong', 'generated-length-wrong', var=v, got=len(s), want=T + 1))
            break
    if not viol:
        for kk in range(1, T + 1):
            env = {v: s[kk] for v, s in series.items()}
            for l, src in lagv.items():
                env[l] = series[src][kk - 1]
            env['k'] = float(kk)
            scale = max([1.0] + [abs(x) for x in env.values() if core.is_finite_number(x)])
            for xv in exo:
                val = exov.get(xv)
                want = val if isinstance(val, float) else list(val)[kk]
                if series[xv][kk] != want:
                    viol.append(core.violation(ID, 'generated-exogenous-mismatch', 'generated-exogenous-mismatch', var=xv, k=kk,
                                               got=series[xv][kk], want=want))
                    break
            if viol:
                break
            for var, rhs in block['eqs']:
                if var in exo:
                    continue
                f = eqn.ev(rhs, env)
                L = eqn.lipschitz_row(rhs, env, [n for n in eqn.names_in(rhs) if n not in lagv and n not in exo])
                bound = (1.0 + L) * tol * 4.0 + 1e-12 * scale
                if not abs(env[var] - f) <= bound:
                    viol.append(core.violation(ID, 'generated-residual-exceeds-tolerance', 'generated-residual-exceeds-tolerance',
                                               var=var, k=kk, got=env[var], f_at_values=f, bound=bound, tol=tol))
                    break
            if viol:
                break
    # table: t first, every non-lagged variable once
    if not viol:
        header = table.split('\n')[0].split('\t')
        want = set(series.keys())
        if len(header) != len(set(header)) or set(header) != want or ('t' in want and header[0] != 't'):
            viol.append(core.violation(ID, 'generated-table-wrong', 'generated-table-wrong', header=header, want=sorted(want)))
        elif len(table.split('\n')) - 2 != T + 1:
            viol.append(core.violation(ID, 'generated-table-wrong', 'generated-table-wrong:rows', rows=len(table.split('\n')) - 2))
        # rendering twice must give the same text (shared variable list)
        elif obj.CreateCsvString() != table:
            viol.append(core.violation(ID, 'generated-table-wrong', 'generated-table-wrong:not-repeatable'))
    # lock-step with the in-process solver
    if not viol and not case.get('bundled'):
        rec = eqn.run_block(block, {'reduction': False, 'tol_param': tol, 'cap': 2000}, (), 'mono')
        if rec['outcome'] == 'ok':
            same_start = all(series[src][0] == rec['series'][src][0] for src in lagv.values())
            if same_start:
                stats['probes']['lockstep_compared'] = 1
                sc = max([1.0] + [abs(x) for s in series.values() for x in s])
                for v in sorted(series):
                    if v not in rec['series']:
                        continue
                    for kk in range(1, T + 1):
                        d = abs(series[v][kk] - rec['series'][v][kk])
                        if d > 200.0 * tol * (1.0 + sc) + 1e-9 * sc:
                            viol.append(core.violation(ID, 'generated-differs-from-solver', 'generated-differs-from-solver', var=v, k=kk,
                                                       generated=series[v][kk], solver=rec['series'][v][kk], tol=tol))
                            break
                    if viol:
                        break
            else:
                stats['probes']['different_k0_not_compared'] = 1
    return {'violations': viol, 'stats': stats, 'sig': sig, 'digest': core.digest([series, table]), 'nontrivial': True}


def parse_simple_block(text):
    """Independent parse of a plain equation block (documented line forms) into the block structure."""
    import re
    b = {'eqs': [], 'lags': [], 'ics': [], 'exo': [], 'maxtime': None, 'err_tol': None}
    mode = 'endo'
    for raw in text.split('\n'):
        if 'exogenous' in raw.lower():
            mode = 'exo'
            continue
        line = raw.split('#')[0].strip()
        if not line or line.count('=') != 1:
            continue
        lhs, rhs = [x.strip() for x in line.split('=')]
        if lhs == 'MaxTime':
            b['maxtime'] = int(rhs)
        elif lhs == 'Err_Tolerance':
            b['err_tol'] = rhs
        elif lhs.endswith('(0)'):
            b['ics'].append([lhs[:-3], rhs])
        elif mode == 'exo':
            b['exo'].append([lhs, rhs])
        else:
            m = re.fullmatch(r'([A-Za-z_][A-Za-z_0-9]*)\((k|t)-1\)', rhs.replace(' ', ''))
            if m:
                b['lags'].append([lhs, m.group(1), 'k'])
            else:
                b['eqs'].append([lhs, rhs])
    return b
