"""C05 - generated system is closed, canonical and free of placeholder names."""
import re

from .. import core, econ, econgen, econprops
from .. import econref as R
from .. import valuation as V

ID = 'C05'
RUNS = {'quick': 1200, 'thorough': 60000}
WALL_CAP = {'quick': 70, 'thorough': 1800}
BLOCK = 10
RULE = ('runs = seeded ECON programs in which variable names are requested at seeded points of the construction '
        'history (before full codes exist -> placeholder; one-country and many-country models; after main()) and the '
        'returned string is embedded by a later op into a sector equation of the same or another sector (AddVariable, '
        'SetEquationRightHandSide, AddTermToEquation, AddCashFlow eqn), a supplier allocation rule, an asset-weighting '
        'rule or a model-level AddGlobalEquation; initial conditions by full code and through the sector object; '
        'exogenous targets whose name was handed out early. Oracle on Model.FinalEquations with an independent parser: '
        'every left-hand side once and canonical, every right-hand-side name defined (or k / t / permitted function), '
        'no placeholder-shaped token anywhere, each emitted equation value-equal (8 valuations) to the sector-local '
        'equation it came from. distinct = distinct (program structure, request/embedding sites) among runs whose '
        'final text was produced')
COMPONENTS = {'real': ['Sector.GetVariableName / _CreateFinalEquations', 'Model._FixAliases / _CreateFinalEquations / '
                       '_GenerateInitialConditions / _ProcessExogenous', 'utils.replace_token_from_lookup'], 'stub': []}
ASSUMPTIONS = ['canonical full codes are computed from the op list (sector code, country prefix iff > 1 country incl. '
               'the external sector)', 'names are embedded in exogenous targets only, never inside exogenous value strings']

PLACEHOLDER = re.compile(r'(?<![A-Za-z0-9])_[0-9]+__[A-Za-z_][A-Za-z_0-9]*')
FUNCS = set(V.FUNCS.keys())

list_paths = econprops.list_paths
simplifiers = econprops.simplifiers


def generate_rerun(seed, S):
    """A model whose first main() is refused (an exogenous path names a sector that does not exist yet); the caller
    catches the error, declares the missing sector, uses one of its names, and runs the same Model again."""
    rng = S['schedule']
    g = [round(rng.uniform(5, 30), 1) for _ in range(4)]
    gov_code = rng.choice(['GOV', 'STATE', 'G2'])
    ops = [{'op': 'Model', 'id': 'm0'},
           {'op': 'Country', 'id': 'c0', 'model': 'm0', 'code': rng.choice(['C1', 'CA']), 'currency': None},
           {'op': 'Sector', 'id': 's0', 'country': 'c0', 'code': 'HH', 'has_F': True},
           {'op': 'AddVariable', 'sector': 's0', 'name': 'C', 'eqn': repr(round(rng.uniform(1, 9), 1))},
           {'op': 'AddCashFlow', 'sector': 's0', 'term': '-C', 'eqn': None},
           {'op': 'AddExogenous', 'model': 'm0', 'fullcode': gov_code, 'var': 'G', 'value': g},
           {'op': 'SetAttr', 'obj': 'm0', 'attr': 'MaxTime', 'value': 2},
           {'op': 'main', 'model': 'm0'},
           {'op': 'Sector', 'id': 's1', 'country': 'c0', 'code': gov_code, 'has_F': True},
           {'op': 'AddVariable', 'sector': 's1', 'name': 'G', 'eqn': '0.0'},
           {'op': 'GetVariableName', 'sector': 's1', 'var': 'G', 'save_as': 'g_late'},
           {'op': 'AddCashFlow', 'sector': 's1', 'term': '-G', 'eqn': None}]
    if rng.random() < 0.6:
        # a name requested before the refused run (a placeholder at that time) and used only afterwards
        ops.insert(5, {'op': 'GetVariableName', 'sector': 's0', 'var': 'C', 'save_as': 'c_early'})
        ops.append({'op': 'AddVariable', 'sector': 's1', 'name': 'HHCONS', 'eqn': '0.5*{name:c_early}'})
    use = rng.choice(['cashflow', 'variable', 'both'])
    if use in ('cashflow', 'both'):
        ops.append({'op': 'AddCashFlow', 'sector': 's0', 'term': '+{name:g_late}', 'eqn': None})
    if use in ('variable', 'both'):
        ops.append({'op': 'AddVariable', 'sector': 's0', 'name': 'SHARE', 'eqn': 'C/(1.0 + {name:g_late})'})
    ops.append({'op': 'main', 'model': 'm0'})
    return {'kind': 'ECON', 'family': 'rerun_after_refusal', 'ops': ops}


def generate(seed, tier):
    S = core.Streams(seed)
    if S['swarm'].random() < 0.04:
        return generate_rerun(seed, S)
    fam = S['swarm'].choice(['closed', 'closed', 'closed_fin', 'capitalists', 'pc', 'federated', 'multi_currency',
                             'multi_currency_supply'])
    ops, info = econgen.gen_program(seed, family=fam, tight=False, T=S['knobs'].randint(1, 3))
    rng = S['schedule']
    main_i = [i for i, o in enumerate(ops) if o['op'] == 'main'][0]
    model = info['model']
    # sectors with F created so far at each position
    secs = [(i, o) for i, o in enumerate(ops) if o['op'] in ('Household', 'HouseholdWithExpectations', 'Capitalists',
                                                             'ConsolidatedGovernment', 'Treasury', 'FixedMarginBusiness',
                                                             'FixedMarginBusinessMultiOutput', 'GoldStandardGovernment')]
    inserts = []   # (position, op)
    n_req = rng.randint(1, 4)
    for j in range(n_req):
        ci, cop = secs[rng.randrange(len(secs))]
        var = rng.choice(['F', 'INC', 'LAG_F', 'F'])
        nm = 'q%d' % j
        pos = rng.randint(ci + 1, main_i)
        inserts.append((pos, {'op': 'GetVariableName', 'sector': cop['id'], 'var': var, 'save_as': nm}))
        # embedding site
        site = rng.choice(['addvar_same', 'addvar_other', 'addterm', 'global', 'global', 'setrhs', 'cashflow_eqn', 'ic_sector',
                           'exo_target'])
        oi, oop = secs[rng.randrange(len(secs))]
        pos2 = rng.randint(max(pos, oi + 1), main_i)
        zn = 'Z%d' % j
        if site == 'addvar_same':
            inserts.append((pos2, {'op': 'AddVariable', 'sector': cop['id'], 'name': zn, 'eqn': '0.5*{name:%s} + 1.0' % nm}))
        elif site == 'addvar_other':
            inserts.append((pos2, {'op': 'AddVariable', 'sector': oop['id'], 'name': zn, 'eqn': '2.0*{name:%s}' % nm}))
        elif site == 'addterm':
            inserts.append((pos2, {'op': 'AddVariable', 'sector': oop['id'], 'name': zn, 'eqn': ''}))
            # every accepted simple-term shape: name, signed name, product / quotient with a number or another
            # requested name (requested at the same point of the history)
            nm2 = nm + 'b'
            inserts.append((pos, {'op': 'GetVariableName', 'sector': cop['id'], 'var': rng.choice(['F', 'INC', 'LAG_F']),
                                  'save_as': nm2}))
            shape = rng.choice(['-{name:A}', '{name:A}', '2*{name:A}', '{name:A}*{name:B}', '{name:A}/{name:B}',
                                '{name:A}/4', '(-{name:A}/{name:B})'])
            inserts.append((pos2, {'op': 'AddTerm', 'sector': oop['id'], 'name': zn,
                                   'term': shape.replace('A}', nm + '}').replace('B}', nm2 + '}')}))
        elif site == 'setrhs':
            inserts.append((pos2, {'op': 'AddVariable', 'sector': oop['id'], 'name': zn, 'eqn': '1.0'}))
            inserts.append((pos2, {'op': 'SetRHS', 'sector': oop['id'], 'name': zn, 'eqn': '{name:%s} - 3.0' % nm}))
        elif site == 'cashflow_eqn':
            # a tiny transfer between two sectors of the same country defined from the requested name
            inserts.append((pos2, {'op': 'AddCashFlow', 'sector': oop['id'], 'term': '-' + zn, 'eqn': '0.001*{name:%s}' % nm,
                                   'is_income': False}))
        elif site == 'global':
            inserts.append((pos2, {'op': 'AddGlobalEquation', 'model': model, 'var': 'GLOB%d' % j,
                                   'eqn': '{name:%s} * 1.0' % nm}))
        elif site == 'ic_sector':
            inserts.append((pos2, {'op': 'AddVariable', 'sector': cop['id'], 'name': zn, 'eqn': '0.5*{name:%s}' % nm}))
            inserts.append((pos2, {'op': 'AddInitialCondition', 'by': 'sector', 'sector': cop['id'], 'var': zn,
                                   'value': round(rng.uniform(-5, 5), 2)}))
        elif site == 'exo_target':
            inserts.append((pos, {'op': 'AddVariable', 'sector': cop['id'], 'name': zn, 'eqn': '0.0'}))
            inserts.append((pos, {'op': 'GetVariableName', 'sector': cop['id'], 'var': zn, 'save_as': nm + 'x'}))
            inserts.append((pos2, {'op': 'SetExogenous', 'sector': cop['id'], 'var': zn,
                                   'value': [1.0 + 0.5 * i for i in range(12)]}))
            inserts.append((pos2, {'op': 'AddGlobalEquation', 'model': model, 'var': 'GLOBX%d' % j,
                                   'eqn': '{name:%sx} + 0.0' % nm}))
    if rng.random() < 0.25:
        # legal local names that happen to look like float literals to float(): INF (inflation), NAN, Infinity
        ci, cop = secs[rng.randrange(len(secs))]
        nm_ = rng.choice(['INF', 'NAN', 'Infinity', 'Inf', 'NaN'])
        inserts.append((main_i, {'op': 'AddVariable', 'sector': cop['id'], 'name': nm_, 'eqn': '0.02'}))
        inserts.append((main_i, {'op': 'AddVariable', 'sector': cop['id'], 'name': 'EXP' + nm_, 'eqn': rng.choice([nm_, '-' + nm_, ' ' + nm_ + ' '])}))
    if rng.random() < 0.3 and len(secs) >= 2:
        # one Equation object, owned by the caller, registered in two sectors (each has its own F)
        (i1, o1), (i2, o2) = rng.sample(secs, 2)
        eqid = 'q%d' % rng.randint(0, 9)
        for (ii, oo) in ((i1, o1), (i2, o2)):
            inserts.append((main_i, {'op': 'AddVariableEq', 'sector': oo['id'], 'eqobj': eqid, 'text': 'ZQ = F + 1.5'}))
    if rng.random() < 0.3:
        # a diagnostic dump in the middle of construction (it generates full codes with the countries known so far)
        inserts.append((rng.randint(secs[0][0] + 1, main_i), {'op': 'LogInfo', 'model': model}))
    # stable insertion: later positions first
    out = list(ops)
    for idx, (pos, op) in sorted(enumerate(inserts), key=lambda x: (-x[1][0], -x[0])):
        out.insert(pos, op)
    # a name requested after main(): must be canonical
    if rng.random() < 0.4:
        ci, cop = secs[rng.randrange(len(secs))]
        out.append({'op': 'GetVariableName', 'sector': cop['id'], 'var': 'F', 'save_as': 'late'})
    return {'kind': 'ECON', 'family': info['family'], 'ops': out}


def valid(case):
    """A shrunk program must stay well formed: no construction error, and every bare local identifier in a
    user-supplied equation text is a variable of that sector (checked just before main())."""
    ops = [o for o in case['ops'] if o['op'] != 'main']
    if len(ops) == len(case['ops']):
        return False
    sess = econ.run_program(ops)
    if sess.errors:
        return False
    for o in ops:
        if o['op'] in ('AddVariable', 'SetRHS') and o.get('sector') in sess.H:
            txt = re.sub(r'\{name:[A-Za-z0-9_]+\}', ' ', o.get('eqn') or '')
            have = set(sess.H[o['sector']].GetVariables())
            for n in econ.names_in_rhs(txt):
                if '__' in n or n in FUNCS or n in ('k', 't'):
                    continue
                if n not in have:
                    return False
        for key in ('eqn', 'term'):
            if isinstance(o.get(key), str):
                for nm in re.findall(r'\{name:([A-Za-z0-9_]+)\}', o[key]):
                    if nm not in sess.N:
                        return False
    return True


def execute(case):
    ops = case['ops']
    sess = econ.run_program(ops)
    d = R.declare(ops)
    viol = []
    stats = {'runs': 1, 'probes': {}, 'family': {case.get('family', '?'): 1}, 'equations_checked': 0}
    produced = False
    for mh in econprops.models_in(ops):
        if mh not in sess.H:
            continue
        model = sess.H[mh]
        txt = sess.final_text.get(mh) or ''
        out, msg = econ.model_outcome(sess, mh)
        stats.setdefault('main_outcome', {})
        stats['main_outcome'][out] = stats['main_outcome'].get(out, 0) + 1
        if not txt:
            continue
        produced = True
        # placeholders handed out?
        if any(PLACEHOLDER.fullmatch(v) for v in sess.N.values()):
            stats['probes']['placeholder_handed_out'] = 1
        p = econ.parse_final(txt)
        # (c) no placeholder-shaped token anywhere in the text
        m = PLACEHOLDER.search(txt)
        if m:
            line = [ln for ln in txt.split('\n') if m.group(0) in ln][0].split('#')[0].strip()
            where = 'global-equation' if any(line.startswith(g['var']) for g in d.globals) else \
                ('initial-condition' if '(0)' in line.split('=')[0] else ('exogenous' if line.split('=')[0].strip() in
                                                                         [x for x, _ in p['exo']] else 'sector-equation'))
            viol.append(core.violation(ID, 'placeholder-survives', 'placeholder-survives:' + where, token=m.group(0),
                                       line=line[0:160], main_outcome=out))
            break
        # (a) canonical names, each once
        if p['dups']:
            viol.append(core.violation(ID, 'defined-twice', 'defined-twice', names=p['dups'][0:5]))
            break
        lhs_all = [l for l, _ in p['eqs']] + [l for l, _ in p['lags']] + [l for l, _ in p['exo']]
        want = set()
        handle_of = {}
        for h, s in econ.sectors_of_model(sess, mh):
            if h in d.sectors:
                fc = R.full_code(d, h)
            else:
                # sectors created by the library itself (external sector internals): country prefix rule
                n_c = len(d.models[mh]['countries'])
                fc = (s.Parent.Code + '_' + s.Code) if n_c > 1 else s.Code
            handle_of[fc] = s
            for v in s.GetVariables():
                want.add(fc + '__' + v)
        glob = set(g['var'] for g in d.globals)
        got = set(lhs_all)
        if got - glob != want:
            viol.append(core.violation(ID, 'names-not-canonical', 'names-not-canonical',
                                       unexpected=sorted(got - glob - want)[0:6], missing=sorted(want - got)[0:6]))
            break
        # (b) closedness
        defined = got | {'k', 't'}
        bad = None
        for lhs, rhs in p['eqs']:
            for n in econ.names_in_rhs(rhs):
                if n not in defined and n not in FUNCS:
                    bad = (lhs, rhs, n)
                    break
            if bad:
                break
        for lhs, src in p['lags']:
            if src not in defined and not bad:
                bad = (lhs, src + '(k-1)', src)
        for var, val in p['ics']:
            if var not in got and not bad:
                bad = (var + '(0)', val, var)
        if bad:
            viol.append(core.violation(ID, 'undefined-name-on-rhs', 'undefined-name-on-rhs', equation=bad[0], rhs=bad[1][0:160],
                                       name=bad[2]))
            break
        # (d) emitted equation == sector-local equation under the renamed environment
        rng = core.stream(int(core.digest(sorted(got)), 16), 'valuations')
        vals = V.make_valuations(sorted(defined), rng, 8)
        emitted = dict(p['eqs'])
        lag_emitted = dict(p['lags'])
        exo_emitted = dict(p['exo'])
        stop = False
        for fc, s in sorted(handle_of.items()):
            local_names = s.GetVariables()
            for v in local_names:
                full = fc + '__' + v
                local_rhs = s.EquationBlock[v].RHS()
                stats['equations_checked'] += 1
                if full in exo_emitted:
                    continue
                m2 = re.fullmatch(r'([A-Za-z_][A-Za-z_0-9]*)\(k-1\)', local_rhs.replace(' ', ''))
                if m2:
                    src = m2.group(1)
                    want_src = (fc + '__' + src) if src in local_names else src
                    if lag_emitted.get(full) != want_src:
                        viol.append(core.violation(ID, 'emitted-differs-from-local', 'emitted-differs-from-local:lag',
                                                   variable=full, local=local_rhs, emitted=lag_emitted.get(full)))
                        stop = True
                        break
                    continue
                if full not in emitted:
                    continue

                def want_fn(env, local_rhs=local_rhs, fc=fc, local_names=local_names):
                    e2 = dict(env)
                    for n in local_names:
                        e2[n] = env[fc + '__' + n]
                    return V.ev(local_rhs, e2)
                try:
                    b = V.same_value(emitted[full], want_fn, vals)
                except Exception as ex:   # noqa
                    b = {'error': 'local form not evaluable: %s' % ex}
                if b is not None:
                    viol.append(core.violation(ID, 'emitted-differs-from-local', 'emitted-differs-from-local', variable=full,
                                               local=local_rhs[0:120], emitted=emitted[full][0:120],
                                               **{k: v for k, v in b.items() if k in ('got', 'want', 'error')}))
                    stop = True
                    break
            if stop:
                break
        if stop:
            break
        # user-supplied equations keep the meaning they were given (evaluated from the op list, not from the
        # library's own - possibly rewritten - local objects)
        by_id = {}
        for fc, s_ in handle_of.items():
            by_id[s_.ID] = fc
        user = {}
        for o in ops:
            if o.get('sector') not in sess.H or o['sector'] not in d.sectors:
                continue
            fc = R.full_code(d, o['sector'])
            if o['op'] in ('AddVariable', 'SetRHS') and o['name'].startswith(('Z', 'EXP')):
                user[(fc, o['name'])] = sess.subst(o.get('eqn', ''))
            elif o['op'] == 'AddVariableEq':
                lhs, rhs = [x.strip() for x in o['text'].split('=', 1)]
                user[(fc, lhs)] = rhs
        for (fc, var), text in sorted(user.items()):
            full = fc + '__' + var
            if full not in emitted or text.strip() == '' or any(o_['op'] == 'AddTerm' and o_['name'] == var for o_ in ops):
                continue
            local_names = handle_of[fc].GetVariables()

            def want_user(env, text=text, fc=fc, local_names=local_names):
                e2 = dict(env)
                for n in local_names:
                    e2[n] = env[fc + '__' + n]
                # placeholders handed out earlier stand for the canonical variable of the sector with that ID
                for m_ in re.finditer(r'_([0-9]+)__([A-Za-z_][A-Za-z_0-9]*)', text):
                    sid = int(m_.group(1))
                    if sid in by_id:
                        e2[m_.group(0)] = env[by_id[sid] + '__' + m_.group(2)]
                return V.ev(text, e2)
            try:
                b = V.same_value(emitted[full], want_user, vals)
            except Exception as ex:   # noqa
                b = None     # the user text refers to something this reference cannot value: leave it to the other checks
            if b is not None:
                viol.append(core.violation(ID, 'emitted-differs-from-user-equation', 'emitted-differs-from-user-equation',
                                           variable=full, user_text=text[0:120], emitted=emitted[full][0:120],
                                           **{k: v for k, v in b.items() if k in ('got', 'want', 'error')}))
                stop = True
                break
            stats['probes']['user_equation_checked'] = 1
        if stop:
            break
        # names requested after main are canonical
        if 'late' in sess.N and sess.N['late'] not in got:
            viol.append(core.violation(ID, 'late-name-not-canonical', 'late-name-not-canonical', name=sess.N['late']))
            break
        if 'late' in sess.N:
            stats['probes']['name_requested_after_main'] = 1
    sites = [(o['op'], o.get('var') or o.get('name')) for o in ops if o['op'] in ('GetVariableName', 'AddGlobalEquation', 'AddTerm', 'SetRHS', 'AddCashFlow')]
    return {'violations': viol, 'stats': stats, 'sig': core.digest([econprops.program_sig(case, sess), sites]),
            'digest': core.digest([(i, n, o) for i, n, o in sess.log] + [sess.final_text.get(m, '') for m in econprops.models_in(ops)]),
            'nontrivial': produced}
