"""C06 - sector ledgers reflect exactly the cash flows recorded on them (OBJ sessions on Sectors)."""
from .. import core
from .. import valuation as V

ID = 'C06'
RUNS = {'quick': 16000, 'thorough': 2000000}
WALL_CAP = {'quick': 70, 'thorough': 1500}
BLOCK = 250
RULE = ('runs = seeded OBJ sessions: histories of AddCashFlow (every sign/bracket spelling, products and quotients of '
        'two names, numbers, income flag both ways, eqn None / empty / expression), AddCashFlowIncomeExclusion, and '
        'pre-definitions of flow variables (absent / empty / 0.0 / expression), interleaved over 1-3 sectors in 1-2 '
        'models (same sector code in different models/countries); invalid terms as misuse faults. Oracle after every '
        'op = F evaluates to LAG_F + signed sum of all registrations, INC to the signed sum of the income, '
        'non-excluded ones (8 valuations), definition rule, untouched sectors unchanged. distinct = distinct op-shape '
        'sequences among histories with >= 3 accepted registrations')
COMPONENTS = {'real': ['sfc_models.sector.Sector.AddCashFlow/AddVariable', 'sfc_models.models.Model income exclusions',
                       'sfc_models.equation.Equation/Term'], 'stub': []}
ASSUMPTIONS = ['an exclusion applies to registrations made after it was declared (the only order the framework uses)',
               'a flow variable pre-defined as the text "0." (rather than "" or "0.0") is outside the generated inputs']

NAMES = ['X', 'Y', 'DEM_GOOD', 'T', 'DIV', 'SUP_LAB', 'A', 'B', 'INTDEP']
SPELL = ['{b}', '+{b}', '-{b}', '(-{b})', '-({b})', '({b})', ' {b} ', '- {b}', '-(-{b})']
EQNS = [None, None, '', 'A*B', '0.5*Y', 'CA_GOV__T', 'X + 1', '0.0']
PREDEF = ['', '0.0', 'A+B', '2*Y', 'LAG_F*0.1', '0.05*LAG_F', '0.0125', '0.025*Y+A', '0.00', ' 0.0 ']
BAD = ['A+B', '2*A*B', 'A-B', '(A', 'A*B*C', 'max(A,B)']


def generate(seed, tier):
    S = core.Streams(seed)
    if S['swarm'].random() < 0.016:
        # model level: flows recorded on sectors by the framework itself and by Model.RegisterCashFlow (source and
        # destination income flags differ), observed on the solved INC series
        from .. import econgen
        fam = S['swarm'].choice(['multi_currency', 'multi_currency', 'closed', 'capitalists', 'closed_fin', 'pc'])
        ops, info = econgen.gen_program(seed, family=fam, tight=S['swarm'].random() < 0.5, T=S['knobs'].randint(1, 3))
        if S['swarm'].random() < 0.5:
            # flows whose amounts are products with another sector's variable, named while the model is still being
            # built (a temporary name at that time): booked with AddCashFlow on payer and payee
            e = info['economies'][0]
            main_i = [i for i, o in enumerate(ops) if o['op'] == 'main'][0]
            first = max(i for i, o in enumerate(ops) if o.get('id') in (e['hh'], e['gov'])) + 1
            at = S['swarm'].randint(first, main_i)
            coef = S['swarm'].choice(['0.01', '0.002', '2'])
            extra = [{'op': 'GetVariableName', 'sector': e['gov'], 'var': 'LAG_F', 'save_as': 'c06_n'},
                     {'op': 'AddCashFlow', 'sector': e['hh'], 'term': '-%s*{name:c06_n}' % coef, 'eqn': None},
                     {'op': 'AddCashFlow', 'sector': e['gov'], 'term': '+%s*LAG_F' % coef, 'eqn': None,
                      'is_income': S['swarm'].random() < 0.5}]
            ops = ops[0:at] + extra + ops[at:]
        elif S['swarm'].random() < 0.5:
            # a transfer a sector registers with itself, income on one side only (a reclassification): F is unchanged,
            # INC gains or loses the amount
            e = info['economies'][0]
            main_i = [i for i, o in enumerate(ops) if o['op'] in ('main', 'SetAttr')][0]
            sec = e[S['swarm'].choice(['hh', 'gov'])]
            inc_src = S['swarm'].random() < 0.5
            amt = [round(S['swarm'].uniform(0.5, 5.0), 2) for _ in range(8)]
            extra = [{'op': 'AddVariable', 'sector': sec, 'name': 'RECLASS', 'eqn': '0.0'},
                     {'op': 'SetExogenous', 'sector': sec, 'var': 'RECLASS', 'value': amt},
                     {'op': 'RegisterCashFlow', 'model': info['model'], 'source': sec, 'target': sec, 'var': 'RECLASS',
                      'inc_src': inc_src, 'inc_dst': not inc_src}]
            ops = ops[0:main_i] + extra + ops[main_i:]
        return {'kind': 'ECON', 'family': info['family'], 'ops': ops}
    rng = S['ops']
    ops = [{'op': 'model', 'id': 'm0'}, {'op': 'country', 'id': 'c0', 'model': 'm0', 'code': 'CA'}]
    sectors = []
    n_sec = rng.choice([1, 2, 3])
    two_models = rng.random() < 0.4
    if two_models:
        ops += [{'op': 'model', 'id': 'm1'}, {'op': 'country', 'id': 'c1', 'model': 'm1', 'code': 'CA'}]
    elif rng.random() < 0.4:
        ops += [{'op': 'country', 'id': 'c1', 'model': 'm0', 'code': 'US'}]
    countries = ['c0'] + (['c1'] if any(o.get('id') == 'c1' for o in ops) else [])
    for i in range(n_sec):
        c = countries[i % len(countries)]
        code = 'HH' if i < 2 else 'BUS'     # same code in two countries/models on purpose
        if any(s[1] == c and s[2] == code for s in sectors):
            code = 'S%d' % i
        sid = 's%d' % i
        ops.append({'op': 'sector', 'id': sid, 'country': c, 'code': code})
        sectors.append((sid, c, code))
    n_ops = rng.randint(3, 16)
    for _ in range(n_ops):
        sid = sectors[rng.randrange(len(sectors))][0]
        r = rng.random()
        if r < 0.12:
            ops.append({'op': 'exclude', 'sector': sid, 'name': rng.choice(NAMES + ['A*B'])})
        elif r < 0.22:
            ops.append({'op': 'defvar', 'sector': sid, 'name': rng.choice(NAMES), 'eqn': rng.choice(PREDEF)})
        elif r < 0.28:
            ops.append({'op': 'flow_bad', 'sector': sid, 'term': rng.choice(BAD), 'is_income': rng.random() < 0.5})
        elif r < 0.31:
            ops.append({'op': 'flow_empty', 'sector': sid, 'term': rng.choice(['', '  '])})
        else:
            q = rng.random()
            if q < 0.7:
                body = rng.choice(NAMES)
            elif q < 0.85:
                body = '%s*%s' % (rng.choice(NAMES), rng.choice(NAMES))
            elif q < 0.95:
                body = '%s/%s' % (rng.choice(NAMES), rng.choice(NAMES))
            else:
                body = rng.choice(['2', '10.5'])
            eqn = rng.choice(EQNS) if body in NAMES else None
            ops.append({'op': 'flow', 'sector': sid, 'term': rng.choice(SPELL).format(b=body), 'body': body,
                        'eqn': eqn, 'is_income': rng.random() < 0.7})
    return {'kind': 'OBJ', 'ops': ops}


def list_paths(case):
    return [('ops',)]


def valid(case):
    if case.get('kind') == 'ECON':
        from .. import econprops
        return econprops.valid_program(case)
    return True


def simplify(case):
    if case.get('kind') == 'ECON':
        return
    for i, o in enumerate(case['ops']):
        if o['op'] == 'flow':
            if o['term'].strip() not in (o['body'], '-' + o['body']):
                c = core.deep_copy(case)
                neg = eval_sign(o['term'], o['body']) < 0
                c['ops'][i]['term'] = ('-' if neg else '') + o['body']
                yield c
            if o.get('eqn') is not None:
                c = core.deep_copy(case)
                c['ops'][i]['eqn'] = None
                yield c


simplifiers = (simplify,)


def eval_sign(term, body):
    """Sign of a spelled term relative to its body, computed numerically (independent of the library)."""
    names = V.names_in(body)
    env = {n: 1.0 + 0.37 * i for i, n in enumerate(sorted(set(names)))}
    return 1.0 if V.ev(term, env) * V.ev(body, env) > 0 else -1.0


def execute(case):
    if case.get('kind') == 'ECON':
        from .. import econprops, econ
        viol, stats, sess = econprops.numeric_check(case, ('income',), ID)
        stats['probes'] = dict(stats.get('probes', {}), model_level_income_ledger=1)
        solved = stats.get('main_outcome', {}).get('main:ok', 0) > 0
        # whatever main() made of the flows: every sector's F and INC must be evaluable on the model's variables
        for mh, txt in sorted(sess.final_text.items()):
            if viol or not txt:
                continue
            p = econ.parse_final(txt)
            defined = set(l for l, _ in p['eqs']) | set(l for l, _ in p['lags']) | set(l for l, _ in p['exo']) | {'k', 't'}
            for lhs, rhs in p['eqs']:
                if lhs.endswith('__F') or lhs.endswith('__INC'):
                    bad = [n for n in econ.names_in_rhs(rhs) if n not in defined and n not in V.FUNCS]
                    if bad:
                        viol.append(core.violation(ID, 'ledger-refers-to-undefined-name', 'ledger-refers-to-undefined-name',
                                                   equation=lhs, rhs=rhs[0:160], name=bad[0]))
                        break
            stats['probes']['final_ledgers_evaluable_checked'] = 1
        return {'violations': viol, 'stats': stats, 'sig': 'econ:' + econprops.program_sig(case, sess),
                'digest': core.digest([(i, n, o) for i, n, o in sess.log]), 'nontrivial': solved}
    core.import_sut()
    from sfc_models.models import Model, Country
    from sfc_models.sector import Sector
    viol = []
    stats = {'runs': 1, 'ops': 0, 'registrations': 0, 'rejected_bad': 0, 'probes': {}}
    H = {}
    ref = {}     # sector id -> {'F': [terms], 'INC': [terms], 'defs': {name: text}, 'excl': set(bodies)}
    names = set(['LAG_F'])
    for o in case['ops']:
        for key in ('term', 'eqn', 'name', 'body'):
            if isinstance(o.get(key), str):
                names.update(V.names_in(o[key]))
    rng = core.stream(int(core.digest(case['ops']), 16), 'valuations')
    vals = V.make_valuations(names, rng, 8)

    def check_sector(sid, after):
        sec = H[sid]
        r = ref[sid]
        for eqname, terms, lead in (('F', r['F'], ['LAG_F']), ('INC', r['INC'], [])):
            texts = lead + terms
            txt = sec.EquationBlock[eqname].RHS()
            bad = V.same_value(txt, lambda env: sum(V.ev(t, env) for t in texts), vals,
                               lambda env: sum(abs(V.ev(t, env)) for t in texts) + 1e-300)
            if bad is not None:
                viol.append(core.violation(ID, 'ledger-mismatch', 'ledger-mismatch:' + eqname, sector=sid,
                                           equation=eqname, rendered=txt, registered=texts, after_op=after,
                                           **{k: v for k, v in bad.items() if k != 'text'}))
                return False
        for name, text in r['defs'].items():
            if name not in sec.EquationBlock:
                viol.append(core.violation(ID, 'definition-missing', 'definition-missing', sector=sid, var=name, after_op=after))
                return False
            txt = sec.EquationBlock[name].RHS()
            want_txt = text if text.strip() != '' else '0.0'
            bad = V.same_value(txt, lambda env: V.ev(want_txt, env), vals)
            if bad is not None:
                viol.append(core.violation(ID, 'definition-wrong', 'definition-wrong', sector=sid, var=name,
                                           rendered=txt, expected=text, after_op=after))
                return False
        extra = set(sec.EquationBlock.Equations.keys()) - set(r['defs']) - {'F', 'INC', 'LAG_F'}
        if extra:
            viol.append(core.violation(ID, 'unexpected-variable', 'unexpected-variable', sector=sid, vars=sorted(extra), after_op=after))
            return False
        return True

    for o in case['ops']:
        stats['ops'] += 1
        op = o['op']
        try:
            if op == 'model':
                H[o['id']] = Model()
            elif op == 'country':
                if o['model'] in H:
                    H[o['id']] = Country(H[o['model']], o['code'])
            elif op == 'sector':
                if o['country'] in H:
                    H[o['id']] = Sector(H[o['country']], o['code'])
                    ref[o['id']] = {'F': [], 'INC': [], 'defs': {}, 'excl': set()}
            elif o.get('sector') not in ref:
                continue
            elif op == 'exclude':
                sec = H[o['sector']]
                sec.GetModel().AddCashFlowIncomeExclusion(sec, o['name'])
                ref[o['sector']]['excl'].add(o['name'].replace(' ', ''))
            elif op == 'defvar':
                H[o['sector']].AddVariable(o['name'], 'predefined', o['eqn'])
                ref[o['sector']]['defs'][o['name']] = o['eqn']
            elif op == 'flow_empty':
                H[o['sector']].AddCashFlow(o['term'])
            elif op == 'flow_bad':
                try:
                    H[o['sector']].AddCashFlow(o['term'], is_income=o['is_income'])
                    viol.append(core.violation(ID, 'invalid-term-accepted', 'invalid-term-accepted', op=o))
                    break
                except Exception:   # noqa
                    stats['rejected_bad'] += 1
            elif op == 'flow':
                r = ref[o['sector']]
                H[o['sector']].AddCashFlow(o['term'], o.get('eqn'), 'desc', o['is_income'])
                stats['registrations'] += 1
                r['F'].append(o['term'])
                body = o['body'].replace(' ', '')
                if o['is_income'] and body not in r['excl']:
                    r['INC'].append(o['term'])
                elif o['is_income']:
                    stats['probes']['excluded_income_flow'] = 1
                if o.get('eqn') is not None:
                    cur = r['defs'].get(body)
                    if cur is None or cur.strip() == '' or cur.strip() == '0.0':
                        if cur is not None:
                            stats['probes']['definition_filled_in'] = 1
                        r['defs'][body] = o['eqn']
                    else:
                        stats['probes']['existing_definition_kept'] = 1
        except Exception as ex:   # noqa
            viol.append(core.violation(ID, 'valid-op-rejected', 'valid-op-rejected:' + type(ex).__name__, op=o,
                                       error=str(ex)[0:120]))
            break
        ok = True
        for sid in sorted(ref):
            if not check_sector(sid, o):
                ok = False
                break
        if not ok:
            break
    shapes = []
    for o in case['ops']:
        if o['op'] == 'flow':
            shapes.append('flow:%s:%s:%s:%s' % (o['term'].replace(o['body'], 'B').replace(' ', ''), o['body'],
                                               'N' if o.get('eqn') is None else ('E' if o['eqn'] == '' else 'X'), o['is_income']))
        else:
            shapes.append(o['op'] + ':' + str(o.get('name', o.get('code', ''))))
    return {'violations': viol, 'stats': stats, 'sig': core.digest(shapes), 'digest': core.digest([shapes, len(viol)]),
            'nontrivial': stats['registrations'] >= 3}
