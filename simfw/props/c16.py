"""C16 - reading results never changes them (READ sessions against a result-store reference model)."""
import copy

from .. import core, eqn
from ..blockgen import gen_block, render

ID = 'C16'
RUNS = {'quick': 20000, 'thorough': 1500000}
WALL_CAP = {'quick': 45, 'thorough': 1500}
BLOCK = 200
RULE = ('runs = seeded READ sessions on a Model whose solver holds results (solved from a seeded block, or filled by '
        'AppendValue histories, in the main / step-trace / steady-state holders): GetTimeSeries with every cutoff '
        '(argument and TimeSeriesCutoff), suppression flag, series group and Model.MaxTime (incl. histories longer than the default 100), caller-side mutation of the returned '
        'list (append/pop/overwrite/clear), repeated GenerateCSVtext, and BaseSolver.CreateCsvString twice on one '
        'object; oracle after every op = return value equals the documented slice of an immutable reference copy, '
        'stored series still equal the copy, repeated renderings byte-identical. distinct = distinct op-shape '
        'sequences among histories with >= 3 reads')
COMPONENTS = {'real': ['sfc_models.models.Model.GetTimeSeries', 'sfc_models.utils.TimeSeriesHolder',
                       'sfc_models.base_solver.BaseSolver.CreateCsvString', 'EquationSolver (to produce results)'],
              'stub': []}
ASSUMPTIONS = ['documented slice = first cutoff+1 points (all when no cutoff), minus the k=0 point under suppression']

GROUPS = ['main', 'step', 'initial']
FMTS = ['%.5g', '%.12g', '%r', '%10.3f', '%e']


def generate(seed, tier):
    S = core.Streams(seed)
    rng = S['ops']
    ops = []
    if rng.random() < 0.35:
        T = rng.randint(1, 6)
        block, meta = gen_block(S['topology'], 'contractive', T=T, n=rng.randint(1, 3), rich=False)
        ops.append({'op': 'solve', 'block': block})
        names = [v for v, _ in block['eqs']] + ['k', 't']
        groups = ['main']
    else:
        T = rng.randint(0, 6) if rng.random() < 0.92 else rng.randint(99, 210)
        names = ['k', 't'] + ['v%d' % i for i in range(rng.randint(1, 4))]
        if rng.random() < 0.3:
            names.append(rng.choice(['V0', 'V1', 'K', 'T', 'V0']))       # differs from another name by case only
        data = {}
        for g in GROUPS:
            if g == 'main' or rng.random() < 0.4:
                data[g] = {n: [round(rng.uniform(-100, 100), 3) if n not in ('k',) else float(i) for i in range(T + 1)]
                           for n in names}
        ops.append({'op': 'fill', 'data': data})
        groups = sorted(data)
    n_ops = rng.randint(3, 14)
    has_base = False
    for _ in range(n_ops):
        r = rng.random()
        if r < 0.04:
            # the horizon written into the *next* generated equation block; it says nothing about what is stored
            ops.append({'op': 'model_maxtime', 'value': rng.choice([0, 1, 2, max(T - 1, 0), T, T + 3, 100])})
        elif r < 0.12:
            ops.append({'op': 'flag', 'cutoff': rng.choice([None, None, 0, 1, 2, T, T + 2]), 'suppress': rng.random() < 0.5})
        elif r < 0.22:
            ops.append({'op': 'csv', 'fmt': rng.choice(FMTS)})
            if rng.random() < 0.3:
                ops.append({'op': 'names_mutate', 'how': rng.choice(['sort', 'reverse', 'clear', 'append'])})
        elif r < 0.245 and 'fill' in ops[0]['op']:
            # the same stored series, put into the holder again (another insertion history, same content)
            ops.append({'op': 'reinsert', 'group': rng.choice(groups), 'series': rng.choice(names)})
        elif r < 0.27 and 'fill' in ops[0]['op']:
            ops.append({'op': 'append', 'group': rng.choice(groups), 'series': rng.choice(names), 'value': round(rng.uniform(-9, 9), 2)})
        elif r < 0.30:
            ops.append({'op': 'get_missing', 'series': rng.choice(['no_such_series', 'GOOD__SUP_GOODS', 'K', 'v99']),
                        'cutoff': rng.choice([None, 0, 2]), 'group': rng.choice(groups)})
        elif r < 0.36:
            if not has_base:
                vl = rng.sample(['t', 'x', 'y', 'z'], rng.randint(1, 4))
                n = rng.randint(1, 4)
                ops.append({'op': 'base_new', 'vars': vl, 'data': {v: [round(rng.uniform(-5, 5), 2) for _ in range(n)] for v in vl}})
                has_base = True
            ops.append({'op': 'base_csv'})
        else:
            ops.append({'op': 'get', 'series': rng.choice(names), 'cutoff': rng.choice([None, None, None, 0, 1, 3, T, T + 2]),
                        'group': rng.choice(groups), 'then': rng.choice([None, None, 'append', 'pop', 'set0', 'clear', 'extend'])})
    twins = [n for n in (names if ops[0]['op'] == 'fill' else []) if n.lower() != n and n.lower() in names]
    if twins and rng.random() < 0.6:
        f = rng.choice(FMTS)
        tw = rng.choice(twins)
        ops += [{'op': 'csv', 'fmt': f}, {'op': 'reinsert', 'group': 'main', 'series': rng.choice([tw, tw.lower()])},
                {'op': 'csv', 'fmt': f}]
    return {'kind': 'READ', 'ops': ops}


def list_paths(case):
    return [('ops',)]


def simplify(case):
    for i, o in enumerate(case['ops']):
        if o['op'] == 'get' and o.get('then') is not None:
            c = core.deep_copy(case)
            c['ops'][i]['then'] = None
            yield c
        if o['op'] == 'fill':
            for g in sorted(o['data']):
                if g != 'main':
                    c = core.deep_copy(case)
                    del c['ops'][i]['data'][g]
                    yield c


simplifiers = (simplify,)


def holders(model):
    s = model.EquationSolver
    return {'main': s.TimeSeries, 'step': s.TimeSeriesStepTrace, 'initial': s.TimeSeriesInitialSteadyState}


def execute(case):
    core.import_sut()
    from sfc_models.models import Model
    from sfc_models.base_solver import BaseSolver
    import warnings
    viol = []
    stats = {'runs': 1, 'reads': 0, 'mutations': 0, 'renders': 0, 'probes': {}}
    model = Model()
    ref = {g: {} for g in GROUPS}
    base = None
    base_ref = None
    base_first = None
    csv_first = {}
    flags = {'cutoff': None, 'suppress': False}

    def stored_ok(after):
        hs = holders(model)
        for g in GROUPS:
            cur = {k: list(v) for k, v in hs[g].items()}
            if core.canon_json(cur) != core.canon_json(ref[g]):
                diff = [k for k in sorted(set(cur) | set(ref[g])) if cur.get(k) != ref[g].get(k)]
                v = diff[0] if diff else '?'
                why = after['op']
                if after['op'] == 'get':
                    why = 'caller-mutated-returned-list' if after.get('then') else 'by-reading'
                viol.append(core.violation(ID, 'stored-results-changed', 'stored-results-changed:' + why,
                                           group=g, series=v, stored=cur.get(v), reference=ref[g].get(v), after_op=after,
                                           flags=dict(flags)))
                return False
        return True

    for o in case['ops']:
        op = o['op']
        if op == 'solve':
            with warnings.catch_warnings():
                warnings.simplefilter('ignore')
                try:
                    model.EquationSolver.ParseString(render(o['block']))
                    model.EquationSolver.SolveEquation()
                except Exception:   # noqa
                    pass
            for g, h in holders(model).items():
                ref[g] = {k: list(v) for k, v in h.items()}
        elif op == 'fill':
            hs = holders(model)
            for g in sorted(o['data']):
                for n in sorted(o['data'][g]):
                    for x in o['data'][g][n]:
                        hs[g].AppendValue(n, x)
                ref[g] = {k: list(v) for k, v in hs[g].items()}
        elif op == 'flag':
            model.TimeSeriesCutoff = o['cutoff']
            model.TimeSeriesSupressTimeZero = o['suppress']
            flags = {'cutoff': o['cutoff'], 'suppress': o['suppress']}
        elif op == 'model_maxtime':
            model.MaxTime = o['value']
            stats['probes']['model_maxtime_changed_after_results_stored'] = 1
        elif op == 'reinsert':
            h = holders(model)[o['group']]
            if o['series'] in h:
                h[o['series']] = h.pop(o['series'])
                stats['probes']['series_reinserted_unchanged'] = 1
        elif op == 'append':
            holders(model)[o['group']].AppendValue(o['series'], o['value'])
            ref[o['group']].setdefault(o['series'], []).append(o['value'])
            csv_first = {}
        elif op == 'get':
            if o['series'] not in ref[o['group']]:
                continue
            stats['reads'] += 1
            stored = ref[o['group']][o['series']]
            cutoff = o['cutoff'] if o['cutoff'] is not None else flags['cutoff']
            want = list(stored) if cutoff is None else list(stored[0:cutoff + 1])
            if flags['suppress']:
                if len(want) == 0:
                    continue
                want = want[1:]
            try:
                got = model.GetTimeSeries(o['series'], cutoff=o['cutoff'], group_of_series=o['group'])
            except Exception as ex:   # noqa
                viol.append(core.violation(ID, 'read-raised', 'read-raised:' + type(ex).__name__, op=o, flags=dict(flags)))
                break
            if list(got) != want:
                viol.append(core.violation(ID, 'wrong-slice', 'wrong-slice', op=o, flags=dict(flags), got=list(got), want=want,
                                           stored=stored))
                break
            if not stored_ok(dict(o, then=None)):
                break
            th = o.get('then')
            if th:
                stats['mutations'] += 1
                try:
                    if th == 'append':
                        got.append(123456.0)
                    elif th == 'pop':
                        got.pop()
                    elif th == 'set0':
                        got[0] = -777.0
                    elif th == 'clear':
                        del got[:]
                    elif th == 'extend':
                        got.extend([1.0, 2.0])
                except IndexError:
                    pass
            if cutoff is None and not flags['suppress']:
                stats['probes']['read_without_cutoff_then_' + str(th)] = 1
        elif op == 'get_missing':
            if o['series'] in ref[o['group']]:
                continue
            try:
                got = model.GetTimeSeries(o['series'], cutoff=o['cutoff'], group_of_series=o['group'])
                viol.append(core.violation(ID, 'missing-series-read-did-not-raise', 'missing-series-read-did-not-raise',
                                           op=o, returned=list(got)[0:5]))
                break
            except KeyError:
                stats['probes']['missing_series_read'] = 1
            except Exception as ex:   # noqa
                viol.append(core.violation(ID, 'read-raised', 'read-raised:' + type(ex).__name__, op=o, flags=dict(flags)))
                break
        elif op == 'names_mutate':
            lst = model.EquationSolver.TimeSeries.GetSeriesList()
            if o['how'] == 'sort':
                lst.sort()
            elif o['how'] == 'reverse':
                lst.reverse()
            elif o['how'] == 'clear':
                del lst[:]
            else:
                lst.append('bogus')
            stats['probes']['returned_name_list_mutated'] = 1
        elif op == 'csv':
            stats['renders'] += 1
            txt = model.EquationSolver.GenerateCSVtext(o['fmt'])
            if o['fmt'] in csv_first and csv_first[o['fmt']] != txt:
                viol.append(core.violation(ID, 'rendering-not-repeatable', 'rendering-not-repeatable:GenerateCSVtext',
                                           first=csv_first[o['fmt']][0:200], again=txt[0:200]))
                break
            csv_first[o['fmt']] = txt
        elif op == 'base_new':
            base_vars = list(o['vars'])
            base = BaseSolver(base_vars)
            for v in o['vars']:
                setattr(base, v, list(o['data'][v]))
            base_ref = (list(o['vars']), copy.deepcopy(o['data']))
            base_first = None
        elif op == 'base_csv':
            if base is None:
                continue
            stats['renders'] += 1
            try:
                txt = base.CreateCsvString()
            except Exception as ex:   # noqa
                viol.append(core.violation(ID, 'rendering-raised', 'rendering-raised:' + type(ex).__name__, error=str(ex)[0:100]))
                break
            if base_first is not None and txt != base_first:
                viol.append(core.violation(ID, 'rendering-not-repeatable', 'rendering-not-repeatable:CreateCsvString',
                                           first=base_first[0:200], again=txt[0:200], vars=base_ref[0]))
                break
            if base_first is None:
                base_first = txt
            else:
                stats['probes']['base_rendered_twice'] = 1
            if sorted(base.VariableList) != sorted(base_ref[0]) or any(getattr(base, v) != base_ref[1][v] for v in base_ref[0]):
                viol.append(core.violation(ID, 'stored-results-changed', 'stored-results-changed:CreateCsvString',
                                           variable_list=list(base.VariableList), reference=base_ref[0]))
                break
        if not stored_ok(o):
            break
    shapes = []
    for o in case['ops']:
        if o['op'] == 'get':
            shapes.append('get:%s:%s:%s' % (o['cutoff'], o['group'], o.get('then')))
        elif o['op'] == 'flag':
            shapes.append('flag:%s:%s' % (o['cutoff'], o['suppress']))
        elif o['op'] in ('solve', 'fill'):
            shapes.append(o['op'] + ':' + ','.join(sorted(o.get('data', {'main': 1}))))
        else:
            shapes.append(o['op'] + ':' + str(o.get('fmt', '')))
    return {'violations': viol, 'stats': stats, 'sig': core.digest(shapes), 'digest': core.digest([shapes, len(viol)]),
            'nontrivial': stats['reads'] + stats['renders'] >= 3}
