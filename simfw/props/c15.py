"""C15 - an accepted initial steady state really is steady."""
import copy
import warnings

from .. import core, eqn, eqncases
from ..blockgen import gen_block, render, fl

ID = 'C15'
RUNS = {'quick': 2500, 'thorough': 150000}
WALL_CAP = {'quick': 60, 'thorough': 1500}
BLOCK = 25
RULE = ('runs = seeded EQN sessions calling the initial steady-state search on systems whose period-to-period '
        'dynamics are stable, drifting (+/-), slowly unstable or oscillating, with fixed points of either sign and '
        'near zero, search horizons 1..200, tolerances 1e-2..1e-6, varying excluded-variable lists; oracle = '
        '(i) parser lists, exogenous series and horizon identical before/after, (ii) if accepted: one more period '
        'solved by an independent fresh solver from the installed k=0 values with exogenous frozen moves every '
        'non-excluded variable by <= 2*tol (relative or absolute), else the search must raise NoEquilibriumError/'
        'ValueError. distinct = distinct (block shape, dynamics class, search knobs, verdict) among runs that '
        'reached the search')
COMPONENTS = {'real': ['EquationSolver.CalculateInitialSteadyState / _GetCopy / SolveStep', 'EquationParser'],
              'stub': []}
ASSUMPTIONS = ['within-period solves use ParameterErrorTolerance 1e-12 so that solver noise is far below the '
               'steady-state tolerance being tested',
               'period-to-period dynamics are generated with lag gain <= 1.2, so one further step cannot legitimately '
               'amplify an accepted residual beyond the 2x margin']

DYN = ['stable', 'stable_neg', 'drift_pos', 'drift_neg', 'oscillate', 'oscillate_zero', 'slow_unstable', 'near_zero', 'mixed_block',
       'regime_at_zero']


def gen_dyn_block(rng, dyn, T):
    """Small hand-shaped dynamic systems; each has a within-period contractive part."""
    eqs, lags, ics, exo = [], [], [], []
    g = fl(rng, 5, 50, 1)
    if rng.random() < 0.6:
        exo.append(['g0', '[%s,]*3 + [%s,]*%d' % (repr(g), repr(g * 2), T + 5)])
        gterm = 'g0'
    else:
        gterm = repr(g)
    sign = -1.0 if dyn in ('stable_neg', 'drift_neg') else 1.0
    if dyn in ('stable', 'stable_neg', 'near_zero'):
        a = rng.choice([0.2, 0.5, 0.8, 0.9, 0.97])
        scale = 1e-6 if dyn == 'near_zero' else 1.0
        eqs.append(['y', '0.5*c + %s*%s' % (repr(sign * scale), gterm)])
        eqs.append(['c', '0.3*y + 0.2*LAG_w'])
        eqs.append(['w', '%s*LAG_w + 0.1*y' % repr(a)])
        lags.append(['LAG_w', 'w', 'k'])
        ics.append(['w', repr(sign * fl(rng, 0, 100, 1) * scale)])
    elif dyn in ('drift_pos', 'drift_neg'):
        d = sign * rng.choice([0.001, 0.01, 0.5, 1.0, 5.0])
        eqs.append(['w', 'LAG_w + %s' % repr(d)])
        eqs.append(['y', '0.5*y + 0.1*w + 1.0'])
        lags.append(['LAG_w', 'w', 'k'])
        ics.append(['w', repr(sign * rng.choice([1.0, 100.0, 1000.0, 1e5]))])
    elif dyn == 'oscillate':
        a = -rng.choice([0.5, 0.9, 1.0])
        eqs.append(['w', '%s*LAG_w + %s' % (repr(a), gterm)])
        eqs.append(['y', '0.4*y + 0.2*w'])
        lags.append(['LAG_w', 'w', 'k'])
        ics.append(['w', repr(fl(rng, -50, 50, 1))])
    elif dyn == 'regime_at_zero':
        # equations may use the step k / the time axis t: here a policy regime that starts exactly at period 0;
        # the search (k = -T .. 0) sees the switch in its very last period
        a = rng.choice([0.2, 0.5, 0.8])
        jump = rng.choice([5.0, 20.0, -8.0])
        who = rng.choice(['k', 't'])
        eqs.append(['y', '0.5*c + %s + %s*(%s > -0.5)' % (gterm, repr(jump), who)])
        eqs.append(['c', '0.3*y + 0.2*LAG_w'])
        eqs.append(['w', '%s*LAG_w + 0.1*y' % repr(a)])
        lags.append(['LAG_w', 'w', 'k'])
        ics.append(['w', repr(fl(rng, 0, 100, 1))])
    elif dyn == 'oscillate_zero':
        # sign flips every period, magnitude (nearly) constant: a period-2 orbit symmetric about zero
        a = -rng.choice([1.0, 1.0, 0.99999, 0.9999, 0.999])
        eqs.append(['w', '%s*LAG_w' % repr(a)])
        eqs.append(['y', '0.4*y + 0.2*w'])
        lags.append(['LAG_w', 'w', 'k'])
        ics.append(['w', repr(rng.choice([-1.0, 1.0]) * fl(rng, 1, 100, 1))])
    elif dyn == 'slow_unstable':
        a = rng.choice([1.01, 1.05, 1.2])
        eqs.append(['w', '%s*LAG_w - 1.0' % repr(a)])
        eqs.append(['y', '0.4*y + 0.2*w'])
        lags.append(['LAG_w', 'w', 'k'])
        ics.append(['w', repr(rng.choice([-1.0, 1.0, 1e-9, 50.0, 1.0 / (a - 1.0)]))])
    if rng.random() < 0.4:
        eqs.append(['dd', '2.0*w - y'])     # decorative
    if rng.random() < 0.3:
        eqs.append(['al', 'w'])             # alias
    return {'eqs': eqs, 'lags': lags, 'ics': ics, 'exo': exo, 'maxtime': T, 'err_tol': None}


def generate(seed, tier):
    S = core.Streams(seed)
    rng = S['topology']
    dyn = S['swarm'].choice(DYN)
    T = S['knobs'].randint(1, 5)
    if dyn == 'mixed_block':
        block, meta = gen_block(rng, 'contractive', T=T, n=rng.randint(1, 5), rich=True, allow_user_t=False)
    else:
        block = gen_dyn_block(rng, dyn, T)
    if S['swarm'].random() < 0.3 and dyn != 'mixed_block':
        # the run itself is longer than the search horizon, and the exogenous input steps inside that horizon
        T = S['knobs'].choice([12, 20, 30])
        block = gen_dyn_block(rng, dyn, T)
        for e in block['exo']:
            g = fl(rng, 5, 50, 1)
            cut = S['knobs'].randint(1, 6)
            e[1] = '[%s,]*%d + [%s,]*%d' % (repr(g), cut, repr(round(g * 1.5, 2)), T + 5)
    steady = {'T': S['knobs'].choice([1, 2, 3, 5, 10, 20, 50, 100, 200]),
              'tol': S['knobs'].choice([1e-2, 1e-3, 1e-4, 1e-5, 1e-6, 1e-6, 0.0]),
              'excluded': ['t']}
    r = S['knobs'].random()
    names = [v for v, _ in block['eqs']]
    if r < 0.15 and names:
        steady['excluded'] = ['t', names[S['knobs'].randrange(len(names))]]
    elif r < 0.2:
        steady['excluded'] = []
    steady['excluded_how'] = S['swarm'].choice(['assign', 'inplace', 'default'])
    knobs = {'reduction': S['knobs'].random() < 0.6, 'tol_param': 1e-12 if S['knobs'].random() < 0.85 else None,
             'cap': None, 'trace_step': S['knobs'].choice([None, None, None, 1]), 'maxtime_attr': None,
             'tick_var': None, 'steady': steady}
    return {'kind': 'EQN', 'profile': 'steady:' + dyn, 'drive': 'steady', 'faults': [], 'expect': {},
            'block': block, 'knobs': knobs, 'meta': {}}


list_paths = eqncases.list_paths
valid = eqncases.valid


def simplify(case):
    st = case['knobs']['steady']
    if st['T'] > 5:
        c = core.deep_copy(case)
        c['knobs']['steady']['T'] = max(5, st['T'] // 2)
        yield c
    if case['knobs'].get('trace_step') is not None:
        c = core.deep_copy(case)
        c['knobs']['trace_step'] = None
        yield c
    if not case['knobs'].get('reduction'):
        c = core.deep_copy(case)
        c['knobs']['reduction'] = True
        yield c
    for c in eqncases.simplify_rhs(case):
        yield c


simplifiers = (simplify,)


def parser_snapshot(solver):
    p = solver.Parser
    return {'endo': copy.deepcopy(p.Endogenous), 'lag': copy.deepcopy(p.Lagged), 'exo': copy.deepcopy(p.Exogenous),
            'deco': copy.deepcopy(p.Decoration), 'ics': copy.deepcopy(p.InitialConditions), 'maxtime': p.MaxTime,
            'tol': p.Err_Tolerance, 'alleq': copy.deepcopy(p.AllEquations),
            'solver_maxiter': solver.MaxIterations, 'solver_maxtime': solver.MaxTime,
            'trace': solver.TraceStep, 'tolparam': solver.ParameterErrorTolerance}


def approach_class(search_copy, st, v, moved, v0):
    """How the variable approached its limit during the search (read off the trajectory the search itself returns):
    'accepted-on-a-small-step-of-an-uneven-approach' when the last step meets the library's own last-pair test, one of
    the two steps before it was clearly larger than the tolerance allows, and the movement afterwards stays within 4
    tolerances (known finding F26: a slowly damped spiral accepted at a moment when this variable hardly moves);
    'other' otherwise."""
    try:
        ts = list(search_copy.TimeSeries[v])
        if len(ts) < 4:
            return 'other'
        tol = float(st['tol'])
        lim = max(tol, tol * abs(ts[-1]))
        d_last = abs(ts[-1] - ts[-2])
        before = max(abs(ts[-2] - ts[-3]), abs(ts[-3] - ts[-4]))
        if d_last <= lim and before > lim and moved <= 4.0 * max(tol, tol * abs(v0)):
            return 'accepted-on-a-small-step-of-an-uneven-approach'
    except Exception:   # noqa
        pass
    return 'other'


def execute(case):
    core.import_sut()
    from sfc_models.equation_solver import EquationSolver
    block, knobs = case['block'], case['knobs']
    st = knobs['steady']
    stats = {'runs': 1, 'probes': {}, 'profile': {case['profile']: 1}}
    viol = []
    solver = EquationSolver(run_equation_reduction=bool(knobs.get('reduction', True)))
    verdict = 'not-reached'
    try:
        with warnings.catch_warnings():
            warnings.simplefilter('ignore')
            solver.ParseString(render(block))
            if knobs.get('tol_param') is not None:
                solver.ParameterErrorTolerance = knobs['tol_param']
            if knobs.get('trace_step') is not None:
                solver.TraceStep = knobs['trace_step']
            solver.ParameterInitialSteadyStateMaxTime = int(st['T'])
            solver.ParameterInitialSteadyStateErrorToler = float(st['tol'])
            how = st.get('excluded_how', 'assign')
            if how == 'inplace' and 't' in st['excluded']:
                # the documented default is ['t']; a script adds its own names to this solver's list in place
                for v in st['excluded']:
                    if v not in solver.ParameterInitialSteadyStateExcludedVariables:
                        solver.ParameterInitialSteadyStateExcludedVariables.append(v)
                stats['probes']['exclusion_list_extended_in_place'] = 1
            elif how == 'default' and list(st['excluded']) == ['t']:
                stats['probes']['exclusion_list_left_at_default'] = 1      # relies on the documented default
            else:
                solver.ParameterInitialSteadyStateExcludedVariables = list(st['excluded'])
            solver.ExtractVariableList()
            solver.SetInitialConditions()
    except Exception as ex:   # noqa
        return {'violations': [], 'stats': stats, 'sig': 'setup-failed', 'digest': core.digest(str(ex)),
                'nontrivial': False}
    pre_parser = parser_snapshot(solver)
    pre_series = eqn.snapshot(solver.TimeSeries)
    exo_names = [v for v, _ in solver.Parser.Exogenous]
    msg = ''
    search_copy = None
    try:
        with warnings.catch_warnings():
            warnings.simplefilter('ignore')
            search_copy = solver.CalculateInitialSteadyState()
        verdict = 'accepted'
    except Exception as ex:   # noqa
        verdict = type(ex).__name__
        mro = [c.__name__ for c in type(ex).__mro__]
        msg = str(ex)[0:200]
        if 'ValueError' not in mro:
            viol.append(core.violation(ID, 'search-raised-other-error', 'search-raised-other-error:' + verdict,
                                       error=verdict, message=msg))
    stats['verdict'] = {verdict: 1}
    post_parser = parser_snapshot(solver)
    post_series = eqn.snapshot(solver.TimeSeries)
    # (i) isolation between the copy and the original
    if not viol:
        for key in sorted(pre_parser):
            if core.canon_json(pre_parser[key]) != core.canon_json(post_parser[key]):
                viol.append(core.violation(ID, 'search-mutated-solver', 'search-mutated-solver:' + key,
                                           field=key, before=str(pre_parser[key])[0:200], after=str(post_parser[key])[0:200]))
                break
    if not viol:
        if set(pre_series) != set(post_series):
            viol.append(core.violation(ID, 'search-mutated-solver', 'search-mutated-solver:series-keys',
                                       before=sorted(pre_series), after=sorted(post_series)))
        else:
            for v in sorted(pre_series):
                if v in exo_names or v == 'k':
                    if core.canon_json(pre_series[v]) != core.canon_json(post_series[v]):
                        viol.append(core.violation(ID, 'search-mutated-solver', 'search-mutated-solver:exogenous-series',
                                                   var=v, before=pre_series[v][0:5], after=post_series[v][0:5]))
                        break
                elif len(post_series[v]) != len(pre_series[v]):
                    viol.append(core.violation(ID, 'search-mutated-solver', 'search-mutated-solver:series-length',
                                               var=v, before=len(pre_series[v]), after=len(post_series[v])))
                    break
    # (ii) an accepted state is steady: one more period in an independent fresh solver
    if not viol and verdict == 'accepted':
        installed = {v: post_series[v][0] for v in post_series}
        nonfinite = [v for v, x in installed.items() if not core.is_finite_number(x)]
        if nonfinite:
            viol.append(core.violation(ID, 'accepted-nonfinite', 'accepted-nonfinite', vars=nonfinite[0:4]))
        else:
            fresh = {'eqs': [list(e) for e in block['eqs']], 'lags': [list(l) for l in block['lags']],
                     'ics': [], 'exo': [], 'maxtime': 1, 'err_tol': None}
            exo_set = set(v for v, _ in block['exo'])
            for v, _ in block['exo']:
                fresh['exo'].append([v, repr(float(installed[v]))])
            for v in eqn.block_vars(block):
                if v not in exo_set:
                    fresh['ics'].append([v, repr(float(installed[v]))])
            if not eqn.has_user_t(block):
                pass
            rec = eqn.run_block(fresh, {'reduction': False, 'tol_param': 1e-13, 'cap': 5000}, (), 'mono')
            if rec['outcome'] != 'ok':
                stats['inconclusive_fresh_solver_failed'] = 1
            else:
                tol = float(st['tol'])
                loose = knobs.get('tol_param') is None
                excluded = set(st['excluded']) | {'k'}
                # a variable the user excluded may move, hence so may everything that depends on it
                deps = {v: eqn.names_in(r) for v, r in block['eqs']}
                for l, src, _ in block['lags']:
                    deps[l] = {src}
                changed = True
                while changed:
                    changed = False
                    for v, ds in deps.items():
                        if v not in excluded and ds & excluded - {'k'}:
                            excluded.add(v)
                            changed = True
                scale = max([1.0] + [abs(x) for x in installed.values()])
                for v in sorted(rec['series']):
                    if v in excluded or v in exo_set:
                        continue
                    if v == 't' and not eqn.has_user_t(block):
                        # the injected time axis t = k is not a state of the economy; it moves by construction
                        continue
                    v0, v1 = rec['series'][v][0], rec['series'][v][1]
                    if v0 != installed[v]:
                        raise core.HarnessError('fresh solver did not start from the installed value of ' + v)
                    moved = abs(v1 - v0)
                    bound_abs = 2 * tol
                    bound_rel = 2 * tol * abs(v0)
                    if loose:
                        bound_abs += 1e-6 * scale * 20
                    if tol == 0.0:
                        bound_abs += 1e-9 * scale     # "does not move at all", up to the re-solve's own rounding
                    if moved > bound_abs and moved > bound_rel:
                        sgn = 'negative' if v0 < 0 else ('positive' if v0 > 0 else 'zero')
                        viol.append(core.violation(ID, 'accepted-state-not-steady', 'accepted-state-not-steady:' + sgn,
                                                   var=v, installed=v0, after_one_more_period=v1, moved=moved,
                                                   tol=tol, relative=moved / abs(v0) if v0 else None,
                                                   approach=approach_class(search_copy, st, v, moved, v0)))
                        break
                stats['probes']['accepted_and_checked'] = 1
    # (iii) the exclusion list is the user's: a variable that is not on it and is still clearly moving at the end of the
    # search horizon means the search had to refuse. Decided by an independent run of the same block over the horizon
    # (exogenous inputs frozen at k=0), only for blocks that do not refer to the time axis.
    uses_time = any(n in ('k', 't') for _v, r_ in block['eqs'] for n in eqn.names_in(r_)) or eqn.has_user_t(block)
    if not viol and verdict == 'accepted' and not uses_time and len([x for x in st['excluded'] if x != 't']) > 0:
        exo_set = set(v for v, _ in block['exo'])
        ref = {'eqs': [list(e) for e in block['eqs']], 'lags': [list(l) for l in block['lags']],
               'ics': [list(i) for i in block['ics']], 'exo': [], 'maxtime': int(st['T']), 'err_tol': None}
        for v, _ in block['exo']:
            ref['exo'].append([v, repr(float(pre_series[v][0]))])
        rr = eqn.run_block(ref, {'reduction': False, 'tol_param': 1e-13, 'cap': 5000}, (), 'mono')
        if rr['outcome'] == 'ok':
            tol = float(st['tol'])
            literal = set(st['excluded']) | {'k', 't'}
            for v in sorted(rr['series']):
                if v in literal or v in exo_set or len(rr['series'][v]) < 2:
                    continue
                last, prev = rr['series'][v][-1], rr['series'][v][-2]
                moved = abs(last - prev)
                if moved > 4 * tol + 1e-9 and moved > 4 * tol * abs(last):
                    viol.append(core.violation(ID, 'moving-variable-accepted', 'moving-variable-accepted', var=v,
                                               last_two=[prev, last], tol=tol, excluded=list(st['excluded'])))
                    break
            stats['probes']['acceptance_checked_against_reference_run'] = 1
    if verdict != 'accepted':
        stats['probes']['rejected'] = 1
    sig = core.digest([case['profile'], st['T'], st['tol'], st['excluded'], verdict,
                       sorted(v for v, _ in block['eqs']), knobs.get('reduction')])
    return {'violations': viol, 'stats': stats, 'sig': sig,
            'digest': core.digest([verdict, msg, post_series]), 'nontrivial': verdict != 'not-reached'}
