"""C07 - cross-currency flows conserve value at the prevailing exchange rates."""
from .. import core, econ, econgen, econprops

ID = 'C07'
RUNS = {'quick': 700, 'thorough': 40000}
WALL_CAP = {'quick': 70, 'thorough': 1800}
BLOCK = 8
RULE = ('runs = seeded multi-zone ECON programs (2-3 currencies, time-varying non-unit exogenous exchange rates, '
        'registered cross-zone flows in both directions, cross-zone suppliers, gold purchases; external sector declared '
        'first / in the middle / last) and the same programs with the ExternalSector op removed (misuse). Oracle per '
        'period: sum_c NET_c*XR_c + NET_NUMERAIRE = 0; NET_NUMERAIRE = 0 without gold; each currency\'s NET equals the '
        'declared sends minus receives at XR_sender/XR_receiver; receiver ledger credit (via C01 ledger); without an '
        'external sector main() must raise and produce no series beyond k=0. distinct = distinct program structure '
        'signatures among runs that solved or were misuse runs')
COMPONENTS = {'real': ['sfc_models.external (ExternalSector, ForexTransations, ExchangeRates, InternationalGold)',
                       'Model._GenerateRegisteredCashFlows', 'Market._GenerateMultiSupply', 'solver'], 'stub': []}
ASSUMPTIONS = ['exchange-rate paths are drawn so that XR_a/XR_b and XR_b/XR_a differ by >= 5 percent']

WHICH = ('fx', 'ledger')
list_paths = econprops.list_paths
simplifiers = econprops.simplifiers


def valid(case):
    return True if case.get('misuse') else econprops.valid_program(case)


def generate(seed, tier):
    S = core.Streams(seed)
    fam = S['swarm'].choice(['multi_currency', 'multi_currency', 'multi_currency_supply', 'gold'])
    ops, info = econgen.gen_program(seed, family=fam, T=(S['knobs'].randint(2, 10) if tier == 'thorough' else None), tight=S['swarm'].random() < 0.7)
    if S['swarm'].random() < 0.12:
        # the Currency data member of a country is re-labelled after the country exists: zone membership, not this
        # attribute, says which currency a country uses (Country's own documentation), so nothing may change
        ctry = [o for o in ops if o['op'] == 'Country']
        if len(ctry) >= 2:
            a, b_ = S['swarm'].sample(ctry, 2)
            main_i = [i for i, o in enumerate(ops) if o['op'] in ('main', 'SetAttr')][0]
            ops.insert(main_i, {'op': 'SetAttr', 'obj': a['id'], 'attr': 'Currency',
                                'value': b_.get('currency') or b_['code']})
    case = {'kind': 'ECON', 'family': info['family'], 'ops': ops, 'misuse': None}
    if S['faults'].random() < 0.2:
        # the program really contains a cross-currency element (all generated AddSupplier-with-rule ops and first
        # registered flows are cross zone; gold purchases go through the FX book)
        uses_cross = any(o['op'] == 'RegisterCashFlow' for o in ops) or fam == 'gold' or \
            any(o['op'] == 'AddSupplier' and o.get('eqn') for o in ops)
        if uses_cross:
            ext = [o['id'] for o in ops if o['op'] == 'ExternalSector']
            # remove the external sector and everything that needs its handle (exchange-rate settings)
            xr = [o['id'] for o in ops if o['op'] == 'GetSector' and o['country'] in ext]
            case['ops'] = [o for o in ops if o['op'] != 'ExternalSector' and o.get('id') not in xr
                           and o.get('sector') not in xr]
            case['misuse'] = 'no-external-sector'
    return case


def execute(case):
    if case.get('misuse'):
        sess = econ.run_program(case['ops'])
        viol = []
        stats = {'runs': 1, 'probes': {'misuse_no_external_sector': 1}, 'family': {case['family']: 1}}
        for mh in econprops.models_in(case['ops']):
            if mh not in sess.H:
                continue
            out, msg = econ.model_outcome(sess, mh)
            stats['misuse_rejected_with'] = {out: 1}
            ts = econ.series_of(sess, mh)
            if out == 'ok':
                viol.append(core.violation(ID, 'cross-currency-without-external-accepted',
                                           'cross-currency-without-external-accepted', family=case['family']))
            elif any(len(v) > 1 for k, v in ts.items()):
                viol.append(core.violation(ID, 'misuse-left-numbers', 'misuse-left-numbers', outcome=out))
            else:
                # "refused": the registered cross-currency flow must not be half applied to the sender's books
                from .. import econref as R
                d = R.declare(case['ops'])
                for (m, src, tgt, var, _a, _b) in d.registered:
                    if m != mh or R.zone_of(d, src) == R.zone_of(d, tgt) or src not in sess.H:
                        continue
                    frhs = sess.H[src].EquationBlock['F'].RHS()
                    if var in econ.names_in_rhs(frhs) or any(n.endswith('__' + var) for n in econ.names_in_rhs(frhs)):
                        viol.append(core.violation(ID, 'refused-flow-half-applied', 'refused-flow-half-applied',
                                                   sender=R.full_code(d, src), F=frhs[0:160], flow=var))
                        break
        return {'violations': viol, 'stats': stats, 'sig': 'misuse:' + econprops.program_sig(case, sess),
                'digest': core.digest([(i, n, o) for i, n, o in sess.log]), 'nontrivial': True}
    def remap(x):
        # a sector-ledger mismatch on a sector that receives a cross-currency credit is C07's subject
        if x.prop == 'C01' and x.kind == 'sector-ledger-mismatch':
            labels = [f[1] for f in x.details.get('flows', [])]
            if any(l.startswith('registered-in-fx') or l.startswith('supply:SUP_') and '_' in l[11:] for l in labels):
                x.prop = ID
                x.kind = 'receiver-credit-mismatch'
                x.signature = 'receiver-credit-mismatch'
                return x
            return None
        return x
    viol, stats, sess = econprops.numeric_check(case, WHICH, ID, remap=remap)
    # the ledger lines relevant to C07 are the fx-credited ones; report ledger mismatches under C07 only when
    # the sector has a cross-currency credit
    solved = stats.get('main_outcome', {}).get('main:ok', 0) > 0
    return {'violations': viol, 'stats': stats, 'sig': econprops.program_sig(case, sess),
            'digest': core.digest([[(i, n, o) for i, n, o in sess.log],
                                   {m: econ.series_of(sess, m) for m in econprops.models_in(case['ops']) if m in sess.H}]),
            'nontrivial': solved}
