"""C17 - results depend only on the model, not on process history or diagnostics (multi-session simulation)."""
import warnings
import contextlib
import io

from .. import core, eqn, econ, econgen, econprops
from ..blockgen import gen_block, render
from ..simfs import SimFS, SeamPatch

ID = 'C17'
RUNS = {'quick': 1100, 'thorough': 40000}
WALL_CAP = {'quick': 75, 'thorough': 1800}
BLOCK = 10
RULE = ('runs = 2-4 sessions of mixed kinds (ECON model builds + main(), EQN solver sessions driven period by period '
        'with re-solve and re-parse of a different block, GEN code generation through SimFS, OBJ sessions that only '
        'consume object IDs) interleaved at op / solver-period granularity by the seeded scheduler, with logging ops '
        '(register_log, main(base_file_name), priority_cutoff, cleanup), TraceStep, and faults: a neighbour session '
        'that aborts mid-solve, injected open/write/short-write/close failures on log files, tiny iteration caps in a '
        'neighbour. Oracle: every observation of every session (series bit-for-bit, outcome class, final equation '
        'text, generated file text) equals the observation of the same op list executed alone with logging and tracing '
        'off; a repeated solve repeats the first exactly; after re-parsing the reported keys are exactly the new '
        'block\'s variables. Under fs faults a session is compared up to its first op that raised the injected OSError. '
        'distinct = distinct (session-kind multiset, schedule vector hash, fired faults) among runs with >= 2 sessions')
COMPONENTS = {'real': ['process-global state: EconomicObject.ID, Logger.log_file_handles / priority_cutoff, '
                       'equation_solver module namespace', 'Model.main, EquationSolver (all drive modes), '
                       'IterativeMachineGenerator'],
              'stub': ['open() -> SimFS for every log and generated file', 'chaos() for the aborting neighbour']}
ASSUMPTIONS = ['interleaving is at API-call granularity (the library makes no thread-safety claim)',
               'observations never contain object IDs or exception messages, only values, keys, texts and outcome classes']


# ---- session generation ------------------------------------------------------------------------

def gen_eqn_session(S, idx):
    rng = S['topology%d' % idx]
    kn = S['knobs%d' % idx]
    T = kn.randint(1, 5)
    block, meta = gen_block(rng, 'contractive', T=T, n=rng.randint(1, 4), rich=True,
                            tol_text=kn.choice([None, '1e-4', '1e-6', '.001']))
    ops = [{'op': 'new', 'reduction': kn.random() < 0.6}]
    fr = kn.random()
    if fr < 0.45:
        # every session may register its own function under the same name f (c <= 1 keeps the contraction)
        if fr < 0.38:
            ops.append({'op': 'addfunc', 'name': 'f', 'c': kn.choice([0.25, 0.5, 0.75, 0.9, 1.0])})
        # (fr >= 0.38: uses f without registering it: the solve must fail with NameError, alone and interleaved)
        j = rng.randrange(len(block['eqs']))
        if block['eqs'][j][0] in meta['sim']:
            block['eqs'][j][1] = 'f(%s)' % block['eqs'][j][1]
    if kn.random() < 0.3:
        ops.append({'op': 'knob', 'name': 'TraceStep', 'value': kn.randint(1, T)})
    if kn.random() < 0.3:
        ops.append({'op': 'knob', 'name': 'ParameterErrorTolerance', 'value': kn.choice([1e-6, 1e-10])})
    steady = kn.random() < 0.2
    if steady:
        # a block with period-to-period dynamics whose steady state differs from its initial conditions
        g = round(rng.uniform(5, 40), 1)
        block = {'eqs': [['y', '0.5*c + %s' % repr(g)], ['c', '0.3*y + 0.2*LAG_w'], ['w', '0.8*LAG_w + 0.1*y']],
                 'lags': [['LAG_w', 'w', 'k']], 'ics': [['w', repr(round(rng.uniform(0, 50), 1))]], 'exo': [],
                 'maxtime': T, 'err_tol': None}
        ops.append({'op': 'knob', 'name': 'ParameterSolveInitialSteadyState', 'value': True})
        ops.append({'op': 'knob', 'name': 'ParameterInitialSteadyStateMaxTime', 'value': kn.choice([20, 40])})
        if kn.random() < 0.5:
            ops.append({'op': 'exclude_inplace', 'names': kn.choice([['w'], ['w', 'LAG_w'], ['c']])})
    ops.append({'op': 'parse', 'block': block})
    mode = kn.choice(['mono', 'step', 'step']) if not steady else 'mono'
    if mode == 'mono':
        ops.append({'op': 'solve'})
        ops.append({'op': 'observe'})
    else:
        ops.append({'op': 'init'})
        kfail = kn.randint(1, T) if kn.random() < 0.25 else None
        for k in range(1, T + 1):
            if k == kfail:
                # an attempt at this period that fails (sweep cap 1) and is caught; the cap is restored and the step retried
                ops.append({'op': 'knob', 'name': 'MaxIterations', 'value': 1, 'history_only': True})
                ops.append({'op': 'step', 'k': k, 'history_only': True})
                ops.append({'op': 'knob', 'name': 'MaxIterations', 'value': 400, 'history_only': True})
            ops.append({'op': 'step', 'k': k})
        ops.append({'op': 'observe'})
    r = kn.random()
    if steady:
        r = 0.0 if r < 0.8 else 1.0          # the steady-state option persists on the solver: re-solve only
    if r < 0.35:
        ops.append({'op': 'solve'})          # re-solve: must repeat the first solve exactly
        ops.append({'op': 'observe', 'expect_same_as_previous': True})
        if kn.random() < 0.4:
            ops.append({'op': 'knob', 'name': 'TraceStep', 'value': 1})
            ops.append({'op': 'solve'})
            ops.append({'op': 'observe', 'expect_same_as_previous': True})
    elif r < 0.7:
        b2, _ = gen_block(rng, 'contractive', T=kn.randint(1, 4), n=rng.randint(1, 3), rich=kn.random() < 0.5,
                          tol_text=kn.choice([None, '1e-10', '1e-12', '1e-7']))
        # different variable names in the second block, so remnants are visible
        ren = {}
        import re
        names = sorted(set(eqn.block_vars(b2)))
        for n in names:
            ren[n] = 'r_' + n if not n.startswith('LAG_') else 'LAG_r_' + n[4:]

        def rn(txt):
            return re.sub(r'[A-Za-z_][A-Za-z_0-9]*', lambda m: ren.get(m.group(0), m.group(0)), txt)
        b2 = {'eqs': [[ren.get(v, v), rn(r_)] for v, r_ in b2['eqs']],
              'lags': [[ren.get(l, l), ren.get(s_, s_), st] for l, s_, st in b2['lags']],
              'ics': [[ren.get(v, v), t_] for v, t_ in b2['ics']],
              'exo': [[ren.get(v, v), t_] for v, t_ in b2['exo']], 'maxtime': b2['maxtime'], 'err_tol': b2['err_tol']}
        ops.append({'op': 'parse', 'block': b2})
        ops.append({'op': 'solve'})
        ops.append({'op': 'observe', 'expect_keys_of_last_block': True})
    return {'kind': 'EQN', 'ops': ops}


def gen_aborting_session(S, idx):
    rng = S['topology%d' % idx]
    T = 3
    block, meta = gen_block(rng, 'contractive', T=T, n=2, rich=False)
    kind = S['faults'].choice(['zdiv', 'cap', 'overflow'])
    ops = [{'op': 'new', 'reduction': True}]
    if kind == 'zdiv':
        block['eqs'].append(['hz0', '0.0*hz1'])
        block['eqs'].append(['hz1', '1.0/hz0 + 0.2*hz1'])
    elif kind == 'overflow':
        block['eqs'].append(['hz0', 'hz0*hz0 + 2.0'])
        block['ics'].append(['hz0', '3.0'])
    else:
        ops.append({'op': 'knob', 'name': 'MaxIterations', 'value': 1})
    ops.append({'op': 'parse', 'block': block})
    ops.append({'op': 'init'})
    for k in range(1, T + 1):
        ops.append({'op': 'step', 'k': k})
    ops.append({'op': 'observe'})
    return {'kind': 'EQN', 'ops': ops, 'aborting': kind}


def gen_econ_session(S, idx, seed):
    fam = S['swarm%d' % idx].choice(['closed', 'closed_fin', 'capitalists', 'pc', 'multi_currency'])
    ops, info = econgen.gen_program(core.run_seed(seed, 'c17econ', 'x', idx), family=fam, tight=False,
                                    T=S['knobs%d' % idx].randint(1, 3))
    # sessions share the handle space of the interpreter: prefix handles
    pre = 's%d_' % idx
    out = []
    for op in ops:
        o = dict(op)
        for key in ('id', 'model', 'country', 'sector', 'market', 'supplier', 'business', 'obj', 'source', 'target', 'treasury', 'ref'):
            if isinstance(o.get(key), str):
                o[key] = pre + o[key]
        if 'markets' in o:
            o['markets'] = [pre + x for x in o['markets']]
        if o['op'] == 'GetVariableName':
            o['save_as'] = pre + o['save_as']
        import re
        for key in ('eqn', 'term'):
            if isinstance(o.get(key), str):
                o[key] = re.sub(r'\{name:', '{name:' + pre, o[key])
        if o['op'] == 'AssetWeighting':
            o['weights'] = [[c, re.sub(r'\{name:', '{name:' + pre, ee)] for c, ee in o['weights']]
        if o['op'] == 'main' and S['knobs%d' % idx].random() < 0.4:
            o['base_file_name'] = 'logs/run%d' % idx
        out.append(o)
    return {'kind': 'ECON', 'ops': out}


def gen_gen_session(S, idx):
    rng = S['topology%d' % idx]
    T = 3
    block, meta = gen_block(rng, 'contractive', T=T, n=rng.randint(1, 3), rich=False, allow_user_t=False)
    block['eqs'].append(['t', 'LAG_t + 1.0'])
    block['lags'].append(['LAG_t', 't', 'k'])
    return {'kind': 'GEN', 'ops': [{'op': 'gen', 'block': block, 'file': 'gen/model_%d.py' % idx}]}


def gen_obj_session(S, idx):
    n = S['knobs%d' % idx].randint(1, 6)
    return {'kind': 'OBJ', 'ops': [{'op': 'burn_ids', 'n': S['knobs%d' % idx].randint(1, 7)} for _ in range(n)]}


LOG_OPS = ('register_log', 'cutoff', 'cleanup')


def generate(seed, tier):
    S = core.Streams(seed)
    sw = S['swarm']
    n = sw.choice([2, 2, 3, 3, 4])
    sessions = []
    for i in range(n):
        r = sw.random()
        if r < 0.45:
            sessions.append(gen_eqn_session(S, i))
        elif r < 0.7:
            sessions.append(gen_econ_session(S, i, seed))
        elif r < 0.8:
            sessions.append(gen_aborting_session(S, i))
        elif r < 0.9:
            sessions.append(gen_gen_session(S, i))
        else:
            sessions.append(gen_obj_session(S, i))
    # logging ops sprinkled into any session
    lg = S['logging']
    if lg.random() < 0.6:
        for log in lg.sample(['log', 'step', 'eqn', 'timeseries', 'steadystate_0'], lg.randint(1, 3)):
            si = lg.randrange(n)
            pos = lg.randint(0, len(sessions[si]['ops']))
            sessions[si]['ops'].insert(pos, {'op': 'register_log', 'fname': 'logs/%s_%d.txt' % (log, si), 'log': log})
        if lg.random() < 0.4:
            si = lg.randrange(n)
            sessions[si]['ops'].insert(lg.randint(0, len(sessions[si]['ops'])), {'op': 'cutoff', 'value': lg.choice([0, 1, 3, 5, 10])})
        if lg.random() < 0.3:
            si = lg.randrange(n)
            sessions[si]['ops'].insert(lg.randint(0, len(sessions[si]['ops'])), {'op': 'cleanup'})
    faults = []
    if S['faults'].random() < 0.3:
        for _ in range(S['faults'].choice([1, 1, 2])):
            faults.append({'kind': S['faults'].choice(['fs_open_fail', 'fs_write_fail', 'fs_short_write', 'fs_close_fail']),
                           'path_contains': S['faults'].choice(['logs/', '_log.txt', 'step', '_out.txt', 'logs/log']),
                           'nth': S['faults'].choice([1, 1, 2, 3, 10, 40])})
    # the seeded scheduler: one recorded choice per step
    sch = S['schedule']
    remaining = [len(s['ops']) for s in sessions]
    schedule = []
    while sum(remaining) > 0:
        ready = [i for i, r_ in enumerate(remaining) if r_ > 0]
        # mix of fine interleaving and bursts
        i = ready[sch.randrange(len(ready))]
        burst = 1 if sch.random() < 0.6 else sch.randint(2, 6)
        for _ in range(min(burst, remaining[i])):
            schedule.append(i)
            remaining[i] -= 1
    return {'kind': 'MULTI', 'sessions': sessions, 'schedule': schedule, 'faults': faults}


def list_paths(case):
    return [('faults',)] + [('sessions', i, 'ops') for i in range(len(case['sessions']))] + [('sessions',)]


def simplify(case):
    # serialise the schedule: run sessions one after another
    n = len(case['sessions'])
    serial = []
    for i in range(n):
        serial += [i] * len(case['sessions'][i]['ops'])
    if case['schedule'] != serial:
        c = core.deep_copy(case)
        c['schedule'] = serial
        yield c


simplifiers = (simplify,)


def normalise_schedule(case):
    """After shrinking, the schedule vector may mention vanished sessions/ops: rebuild a consistent one that
    keeps the relative order of the recorded choices."""
    n = len(case['sessions'])
    remaining = [len(s['ops']) for s in case['sessions']]
    out = []
    for i in case['schedule']:
        if i < n and remaining[i] > 0:
            out.append(i)
            remaining[i] -= 1
    for i in range(n):
        out += [i] * remaining[i]
    return out


# ---- execution ------------------------------------------------------------------------------------

class EqnState(object):
    def __init__(self):
        self.solver = None
        self.last_block = None
        self.prev_obs = None


def exec_eqn_op(st, op, quiet):
    """Returns (outcome, observation or None)."""
    from sfc_models.equation_solver import EquationSolver
    name = op['op']
    try:
        with warnings.catch_warnings():
            warnings.simplefilter('ignore')
            if name == 'new':
                st.solver = EquationSolver(run_equation_reduction=op['reduction'])
                return 'ok', None
            if st.solver is None:
                return 'noop', None
            if name == 'addfunc':
                c = op['c']
                st.solver.AddFunction(op['name'], (lambda x, c=c: c * x))
                return 'ok', None
            if name == 'knob':
                if quiet and op['name'] == 'TraceStep':
                    return 'skipped', None
                setattr(st.solver, op['name'], op['value'])
                return 'ok', None
            if name == 'exclude_inplace':
                # this session adds a name to *its own* solver's steady-state exclusion list, in place
                lst = st.solver.ParameterInitialSteadyStateExcludedVariables
                for v in op['names']:
                    if v not in lst:
                        lst.append(v)
                return 'ok', None
            if name == 'parse':
                st.solver.ParseString(render(op['block']))
                st.last_block = op['block']
                return 'ok', None
            if name == 'solve':
                st.solver.SolveEquation()
                return 'ok', ('outcome', 'ok')
            if name == 'init':
                st.solver.ExtractVariableList()
                st.solver.SetInitialConditions()
                return 'ok', None
            if name == 'step':
                st.solver.SolveStep(op['k'])
                return 'ok', ('outcome', 'ok')
            if name == 'observe':
                return 'ok', ('series', eqn.snapshot(st.solver.TimeSeries))
    except OSError as ex:
        return 'OSError', ('outcome', 'OSError')
    except Exception as ex:   # noqa
        if isinstance(ex, ValueError) and 'closed file' in str(ex):
            return 'OSError', ('outcome', 'OSError')      # write to a handle poisoned by an injected close failure
        return type(ex).__name__, ('outcome', type(ex).__name__)
    raise core.HarnessError('unknown EQN op ' + name)


def run_sessions(case, quiet, only=None, fs=None):
    """Execute the sessions (all interleaved by case['schedule'], or only session `only` alone).
    quiet=True drops logging ops / tracing / base_file_name (the solo twin).
    Returns {session index: [(op index, outcome, observation)]}, fired faults."""
    core.import_sut()
    from sfc_models.utils import Logger
    from sfc_models.models import Model, Country
    from sfc_models.sector import Sector
    from sfc_models.deprecated.iterative_machine_generator import IterativeMachineGenerator
    sessions = case['sessions']
    n = len(sessions)
    fs = fs or SimFS(() if quiet else case.get('faults', ()))
    results = {i: [] for i in range(n)}
    states = {}
    econ_sess = econ.Session()     # one interpreter, handles are prefixed per session
    econ_sess.fs_patched = True
    pos = [0] * n
    schedule = normalise_schedule(case) if only is None else [only] * len(sessions[only]['ops'])
    Logger.log_file_handles = {}
    Logger.priority_cutoff = 10
    with SeamPatch(fs), contextlib.redirect_stdout(io.StringIO()):
        try:
            for si in schedule:
                s = sessions[si]
                oi = pos[si]
                pos[si] += 1
                if oi >= len(s['ops']):
                    continue
                op = s['ops'][oi]
                name = op['op']
                outcome, obs = 'ok', None
                if name in LOG_OPS:
                    if quiet:
                        results[si].append((oi, 'skipped', None))
                        continue
                    try:
                        if name == 'register_log':
                            Logger.register_log(op['fname'], op['log'])
                        elif name == 'cutoff':
                            Logger.priority_cutoff = op['value']
                        else:
                            Logger.cleanup()
                    except Exception as ex:   # noqa
                        outcome = type(ex).__name__
                    results[si].append((oi, outcome, None))
                    continue
                if op.get('history_only'):
                    # a failed attempt (and the knob changes around it) exists in the interleaved history only; the
                    # session executed alone never makes it: what the solver reports afterwards must be the same
                    if quiet:
                        results[si].append((oi, 'skipped', None))
                        continue
                    st = states.setdefault(si, EqnState())
                    outcome, obs = exec_eqn_op(st, op, quiet)
                    if op['op'] == 'step' and outcome == 'ok':
                        st.skip_step = op['k']      # it was no failure after all: the real step is already done
                    results[si].append((oi, 'skipped', None))
                    continue
                if s['kind'] == 'EQN':
                    st = states.setdefault(si, EqnState())
                    if op['op'] == 'step' and getattr(st, 'skip_step', None) == op['k']:
                        st.skip_step = None
                        results[si].append((oi, 'ok', ('outcome', 'ok')))
                        continue
                    outcome, obs = exec_eqn_op(st, op, quiet)
                elif s['kind'] == 'ECON':
                    o2 = op
                    if quiet and op['op'] == 'main' and 'base_file_name' in op:
                        o2 = {k: v for k, v in op.items() if k != 'base_file_name'}
                    if quiet and op['op'] == 'SetAttr' and op.get('attr') == 'TraceStep':
                        results[si].append((oi, 'skipped', None))
                        continue
                    try:
                        outcome = econ.exec_op(econ_sess, o2, oi)
                    except OSError:
                        outcome = 'OSError'
                    if outcome == 'ValueError' and econ_sess.errors and 'closed file' in econ_sess.errors[-1][3]:
                        outcome = 'OSError'       # logger handle poisoned by an injected close failure
                    if op['op'] == 'main' and op['model'] in econ_sess.H:
                        mo, mmsg = econ.model_outcome(econ_sess, op['model'])
                        if mo == 'ValueError' and 'closed file' in mmsg:
                            mo = 'OSError'
                        obs = ('main', mo, econ.series_of(econ_sess, op['model']), econ_sess.final_text.get(op['model'], ''))
                        outcome = mo
                elif s['kind'] == 'GEN':
                    try:
                        with warnings.catch_warnings():
                            warnings.simplefilter('ignore')
                            g = IterativeMachineGenerator(render(op['block']))
                            g.main(op['file'])
                        obs = ('file', fs.files.get(op['file']))
                    except OSError:
                        outcome = 'OSError'
                        obs = ('outcome', 'OSError')
                    except Exception as ex:   # noqa
                        outcome = type(ex).__name__
                        obs = ('outcome', outcome)
                elif s['kind'] == 'OBJ':
                    try:
                        m = Model()
                        c = Country(m, 'XX')
                        for j in range(op['n']):
                            Sector(c, 'S%d' % j)
                    except OSError:
                        outcome = 'OSError'
                    except ValueError as ex:
                        outcome = 'OSError' if 'closed file' in str(ex) else 'ValueError'
                results[si].append((oi, outcome, obs))
        finally:
            try:
                Logger.cleanup()
            except Exception:   # noqa
                pass
            Logger.log_file_handles = {}
            Logger.priority_cutoff = 10
    return results, list(fs.fired), fs


def execute(case):
    viol = []
    stats = {'runs': 1, 'probes': {}, 'sessions': len(case['sessions']), 'ops': sum(len(s['ops']) for s in case['sessions']),
             'kinds': {}, 'faults_fired': {}, 'observations_compared': 0}
    for s in case['sessions']:
        stats['kinds'][s['kind']] = stats['kinds'].get(s['kind'], 0) + 1
    multi, fired, fs = run_sessions(case, quiet=False)
    for f in fired:
        stats['faults_fired'][f] = stats['faults_fired'].get(f, 0) + 1
    if fs.counts['write'] > 0:
        stats['probes']['log_writes'] = fs.counts['write']
    for si, s in enumerate(case['sessions']):
        solo_all, _f, _fs = run_sessions(case, quiet=True, only=si)
        solo = solo_all[si]
        # intra-session oracles (on the multi run): re-solve repeats, re-parse leaves no remnants
        prev_series = None
        last_block = None
        cut = None
        for (oi, outcome, obs) in multi[si]:
            if outcome == 'OSError' and cut is None:
                cut = oi
        if s.get('aborting'):
            stats['probes']['aborting_neighbour'] = 1
        for (oi, outcome, obs), (oj, outcome2, obs2) in zip(multi[si], solo):
            op = s['ops'][oi]
            if cut is not None and oi >= cut:
                stats['probes']['session_cut_at_injected_oserror'] = 1
                break
            if op['op'] == 'parse':
                last_block = op['block']
            if op['op'] in LOG_OPS or outcome == 'skipped' or outcome2 == 'skipped' and obs is None:
                continue
            if outcome != outcome2 and not (op['op'] in LOG_OPS):
                viol.append(core.violation(ID, 'outcome-depends-on-history', 'outcome-depends-on-history:%s:%s' % (s['kind'], op['op']),
                                           session=si, op_index=oi, op=op['op'], interleaved=outcome, alone=outcome2))
                break
            if obs is not None or obs2 is not None:
                stats['observations_compared'] += 1
                if core.canon_json(obs) != core.canon_json(obs2):
                    what = 'series'
                    det = {}
                    if obs and obs2 and obs[0] in ('series', 'main') and obs2[0] == obs[0]:
                        a = obs[1] if obs[0] == 'series' else obs[2]
                        b = obs2[1] if obs2[0] == 'series' else obs2[2]
                        if set(a) != set(b):
                            what = 'keys'
                            det = {'only_interleaved': sorted(set(a) - set(b))[0:6], 'only_alone': sorted(set(b) - set(a))[0:6]}
                        else:
                            for kname in sorted(a):
                                if core.canon_json(a[kname]) != core.canon_json(b[kname]):
                                    det = {'series': kname, 'interleaved': a[kname][0:6], 'alone': b[kname][0:6]}
                                    break
                            if not det and obs[0] == 'main':
                                what = 'final-text' if obs[3] != obs2[3] else 'main-outcome'
                    elif obs and obs[0] == 'file':
                        what = 'generated-file'
                    viol.append(core.violation(ID, 'result-depends-on-history', 'result-depends-on-history:%s:%s' % (s['kind'], what),
                                               session=si, op_index=oi, op=op['op'], **det))
                    break
            if op['op'] == 'observe' and obs is not None and obs[0] == 'series':
                if op.get('expect_same_as_previous') and prev_series is not None and outcome == 'ok':
                    if core.canon_json(prev_series) != core.canon_json(obs[1]):
                        viol.append(core.violation(ID, 'resolve-differs', 'resolve-differs', session=si, op_index=oi))
                        break
                    stats['probes']['resolve_compared'] = 1
                if op.get('expect_keys_of_last_block') and last_block is not None:
                    # only meaningful when the solve after the re-parse succeeded
                    # (the op right before this observation may be a seeded logging op: look for the solve itself)
                    sidx = max([i for i in range(oi) if s['ops'][i]['op'] == 'solve'] or [-1])
                    prev_out = [x for x in multi[si] if x[0] == sidx]
                    want = set(eqn.block_vars(last_block)) | {'k'}
                    if not eqn.has_user_t(last_block):
                        want.add('t')
                    if prev_out and prev_out[0][1] == 'ok':
                        # a fresh solver given only the last block (same solver settings and functions)
                        pidx = max(i for i in range(oi) if s['ops'][i]['op'] == 'parse')
                        fresh_ops = [o for o in s['ops'][0:pidx] if o['op'] in ('new', 'knob', 'addfunc')] + \
                                    [s['ops'][pidx], {'op': 'solve'}, {'op': 'observe'}]
                        fres, _ff, _ffs = run_sessions({'sessions': [{'kind': 'EQN', 'ops': fresh_ops}],
                                                        'schedule': [0] * len(fresh_ops), 'faults': []}, quiet=True, only=0)
                        fobs = fres[0][-1][2]
                        if fobs is not None and fobs[0] == 'series' and core.canon_json(fobs[1]) != core.canon_json(obs[1]):
                            det = {}
                            for kname in sorted(set(obs[1]) | set(fobs[1])):
                                if core.canon_json(obs[1].get(kname)) != core.canon_json(fobs[1].get(kname)):
                                    det = {'series': kname, 'reused_solver': (obs[1].get(kname) or [])[0:5],
                                           'fresh_solver': (fobs[1].get(kname) or [])[0:5]}
                                    break
                            viol.append(core.violation(ID, 'remnants-after-reparse', 'remnants-after-reparse:values-differ-from-fresh-solver',
                                                       session=si, **det))
                            break
                        stats['probes']['reparse_compared_with_fresh_solver'] = 1
                        if set(obs[1].keys()) != want:
                            viol.append(core.violation(ID, 'remnants-after-reparse', 'remnants-after-reparse', session=si,
                                                       extra=sorted(set(obs[1]) - want)[0:6], missing=sorted(want - set(obs[1]))[0:6]))
                            break
                        stats['probes']['reparse_keys_checked'] = 1
                    else:
                        # the solve right after re-parsing a well-formed contractive block failed
                        o_prev = prev_out[0][1] if prev_out else '?'
                        if o_prev not in ('ConvergenceError', 'OSError'):
                            viol.append(core.violation(ID, 'solve-after-reparse-failed', 'solve-after-reparse-failed:' + o_prev,
                                                       session=si, outcome=o_prev))
                            break
                prev_series = obs[1]
        if viol:
            break
    sch = normalise_schedule(case)
    sig = core.digest([sorted(s['kind'] for s in case['sessions']), sch, sorted(fired)])
    dig = core.digest([[(oi, o, ob) for oi, o, ob in multi[si]] for si in sorted(multi)])
    return {'violations': viol, 'stats': stats, 'sig': sig, 'digest': dig, 'nontrivial': len(case['sessions']) >= 2}
