"""C04 - markets clear and supply is fully allocated among suppliers."""
from .. import core, econ, econgen, econprops

ID = 'C04'
RUNS = {'quick': 800, 'thorough': 60000}
WALL_CAP = {'quick': 70, 'thorough': 1800}
BLOCK = 10
RULE = ('runs = the ECON program population of C01 biased towards markets with several suppliers and allocation rules, '
        'demanders in another country of the zone, cross-currency suppliers, money/deposit markets with default and '
        'explicit demands and asset weightings. Oracle per market and period k>=1, with participants taken from what '
        'the program declares (reference model econref.py, never from the library\'s own search): total demand = sum '
        'of declared demanders, supply = demand, sum of supplier allocations = supply, each supplier\'s own variable = '
        'the market\'s assignment (x cross rate), the cash flow booked on every participant (sector ledger), asset demands add up to F, default money demand = F, issuer supply = '
        'total asset demand. Candidates re-run at 1e-13. distinct = distinct program structure signatures among solved runs')
COMPONENTS = {'real': ['sfc_models.sector.Market (_GenerateTermsLowLevel, _GenerateMultiSupply, _SearchSupplier)',
                       'sector_definitions.MoneyMarket/DepositMarket', 'Sector.GenerateAssetWeighting', 'solver'],
              'stub': []}
ASSUMPTIONS = ['who demands / supplies is derived from the op list by the reference model in simfw/econref.py']

WHICH = ('clearing', 'ledger')
FAMS = ['closed', 'closed_fin', 'closed_fin', 'pc', 'capitalists', 'federated', 'federated', 'multi_currency_supply',
        'multi_currency_supply', 'multi_currency', 'gold']
list_paths = econprops.list_paths
simplifiers = econprops.simplifiers
valid = econprops.valid_program


def generate(seed, tier):
    S = core.Streams(seed)
    fam = S['swarm'].choice(FAMS)
    ops, info = econgen.gen_program(seed, family=fam, T=(S['knobs'].randint(2, 10) if tier == 'thorough' else None), tight=S['swarm'].random() < 0.7)
    if S['swarm'].random() < 0.4:
        # not only the generator's canonical declaration order: a seeded dependency-respecting order
        from . import c08
        order = c08.linear_extension(ops, S['schedule'])
        ops = [ops[i] for i in order]
    return {'kind': 'ECON', 'family': info['family'], 'ops': ops}


def remap(x):
    """The cash flow booked for a market participant must equal the amount the market assigns: a ledger mismatch on a
    sector that demands from / supplies to a market is C04's subject too."""
    if x.prop == 'C01' and x.kind == 'sector-ledger-mismatch':
        labels = [f[1] for f in x.details.get('flows', [])]
        if any(l.startswith('demand:') or l.startswith('supply:') for l in labels):
            x.prop = ID
            x.kind = 'booked-flow-differs-from-market-assignment'
            x.signature = 'booked-flow-differs-from-market-assignment'
            return x
        return None
    return x


def execute(case):
    viol, stats, sess = econprops.numeric_check(case, WHICH, ID, remap=remap)
    solved = stats.get('main_outcome', {}).get('main:ok', 0) > 0
    return {'violations': viol, 'stats': stats, 'sig': econprops.program_sig(case, sess),
            'digest': core.digest([[(i, n, o) for i, n, o in sess.log],
                                   {m: econ.series_of(sess, m) for m in econprops.models_in(case['ops']) if m in sess.H}]),
            'nontrivial': solved}
