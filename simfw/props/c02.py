"""C02 - whatever the solver returns satisfies the submitted equations."""
from .. import core, eqn, eqncases

ID = 'C02'
RUNS = {'quick': 6000, 'thorough': 400000}
WALL_CAP = {'quick': 60, 'thorough': 1500}
BLOCK = 50
RULE = ('runs = seeded EQN sessions (block grammar x knobs x drive mode x injected/natural evaluation faults) '
        'against the real EquationSolver; oracle = substitute reported values back into the submitted block '
        'with an independent evaluator after every reported period. distinct = distinct (block shape, drive, '
        'fired-fault multiset, reduction, cap, outcome) among runs in which at least one period was reported')
COMPONENTS = {'real': ['sfc_models.equation_solver.EquationSolver', 'sfc_models.equation_parser.EquationParser',
                       'sfc_models.utils (tokens, TimeSeriesHolder, Logger)'],
              'stub': ['chaos()/tick() callables injected through EquationSolver.AddFunction']}
ASSUMPTIONS = ['the independent evaluator (Python eval of the submitted right-hand sides with math functions) is correct',
               'residual bound (1+L_i)*tol*max(1,|v|_inf)*4 with L_i measured by central differences',
               'chaos()/tick() are the identity for the oracle: injected faults model transient evaluation failures']

PROFILES = [('contractive', 5), ('contractive_plain', 2), ('mixed', 3), ('expansive', 2), ('hazard', 4),
            ('chaos', 5), ('cap_small', 1), ('econ_text', 1)]

list_paths = eqncases.list_paths
simplifiers = eqncases.simplifiers
valid = eqncases.valid


def generate(seed, tier):
    return eqncases.gen_case(seed, PROFILES, tier)


def execute(case):
    rec = eqn.run_block(case['block'], case['knobs'], case.get('faults', ()), case.get('drive', 'mono'))
    viol = eqn.check_c02(case['block'], case['knobs'], rec, case.get('drive', 'mono'), prop=ID)
    st = eqncases.base_stats(case, rec)
    P = eqn.reported_periods(rec, case.get('drive'))
    return {'violations': viol, 'stats': st, 'sig': eqncases.case_sig(case, rec),
            'digest': eqn.series_digest(rec), 'nontrivial': P >= 1}
