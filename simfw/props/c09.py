"""C09 - textbook models obey their difference equations for any parameters."""
import warnings
import contextlib
import io

from .. import core

ID = 'C09'
RUNS = {'quick': 1200, 'thorough': 50000}
WALL_CAP = {'quick': 70, 'thorough': 1800}
BLOCK = 10
RULE = ('runs = the bundled builders SIM, SIMEX1, PC (use_book_exogenous=False, or the default True with the paths of the run restated afterwards) and the hand-coded ModelSIMiterative, '
        'driven with seeded propensities, tax rates, portfolio parameters (on and off the 4-decimal grid, separate '
        'populations), G_k and r_k paths with 0-3 jumps at seeded periods, consistent initial stocks, horizon <= 12, '
        'solved by the real library at tolerance 1e-12; oracle = the Godley-Lavoie recursions evaluated in closed form '
        'by an independent reference model advanced in lock-step (Y, T, YD, C, H; B_h and H_h for PC) at every period. '
        'distinct = distinct (model, grid class, jump pattern, horizon, initial-stock class) among runs that solved')
COMPONENTS = {'real': ['gl_book.chapter3.SIM / SIMEX1, chapter4.PC builders, model_SIM_iterative.ModelSIMiterative',
                       'sector_definitions (Household*, TaxFlow, FixedMarginBusiness, markets, Treasury, CentralBank)',
                       'solver'], 'stub': []}
ASSUMPTIONS = ['closed-form recursions as in G&L ch. 3-4 with consumption out of current (SIM, PC) or lagged (SIMEX1) '
               'disposable income, interest on lagged bill holdings at the lagged rate, taxes on wages + interest',
               'admissible parameters: 0 < alpha2 < alpha1 < 1, 0 < theta < 1, portfolio share kept inside (0,1)']

list_paths = lambda case: []


def rnd(rng, lo, hi, on_grid):
    v = rng.uniform(lo, hi)
    return round(v, rng.choice([1, 2, 3, 4])) if on_grid else v


def gpath(rng, T, lo, hi, digits):
    jumps = rng.randint(0, 3)
    at = sorted(rng.sample(range(0, T + 1), min(jumps, T + 1)))
    cur = round(rng.uniform(lo, hi), digits)
    out = []
    for i in range(T + 1):
        if i in at:
            cur = round(rng.uniform(lo, hi), digits)
        out.append(cur)
    return out, len(at)


def generate(seed, tier):
    S = core.Streams(seed)
    rng = S['params']
    which = S['swarm'].choice(['SIM', 'SIM', 'SIMEX1', 'SIMEX1', 'PC', 'PC', 'PC', 'ITER'])
    on_grid = S['swarm'].random() < 0.6
    T = S['knobs'].randint(2, 12)
    a1 = rnd(rng, 0.5, 0.9, on_grid)
    a2 = rnd(rng, 0.1, 0.45, on_grid)
    th = rnd(rng, 0.05, 0.4, on_grid)
    G, nj = gpath(rng, T, 5.0, 60.0, 1)
    case = {'kind': 'ECON', 'which': which, 'on_grid': on_grid, 'T': T, 'alpha1': a1, 'alpha2': a2, 'theta': th,
            'G': G, 'jumps': nj, 'V0': 0.0, 'YD0': 0.0}
    if which == 'ITER' and S['swarm'].random() < 0.4:
        case['method2'] = True
    if which != 'ITER' and S['swarm'].random() < 0.2:
        case['book_exo'] = True
    if which != 'ITER' and S['swarm'].random() < 0.25:
        case['resolve'] = True
    if which != 'ITER' and S['swarm'].random() < 0.2:
        case['params_exo'] = True
    if rng.random() < 0.6:
        case['V0'] = round(rng.uniform(5, 150), 2)
    if which == 'SIMEX1' and rng.random() < 0.7:
        case['YD0'] = round(rng.uniform(5, 60), 2)
    if which == 'PC':
        case['l0'] = rnd(rng, 0.3, 0.7, True)
        case['l1'] = rnd(rng, 0.5, 4.0, True)
        case['l2'] = rnd(rng, 0.0, 0.05, True)
        r, nr = gpath(rng, T, 0.0, 0.06, 3)
        case['r'] = r
        case['jumps'] = nj + nr
        case['B0'] = round(case['V0'] * rng.uniform(0.2, 0.8), 2)
        if rng.random() < 0.25:
            case['B0'] = 0.0          # cash-only start: an explicit zero initial condition
        case['YD0'] = round(rng.uniform(5, 60), 2) if rng.random() < 0.5 else 0.0
        if case['B0'] and case['V0'] and case['YD0'] and rng.random() < 0.4:
            # no initial condition on bill holdings: the k=0 value follows from the portfolio equation
            case['derive_B0'] = not case.get('book_exo', False)
            case['B0'] = case['V0'] * (case['l0'] + case['l1'] * r[0]) - case['l2'] * case['YD0']
    if which == 'ITER':
        case['V0'] = 80.0 if rng.random() < 0.5 else case['V0']
    return case


def simplify(case):
    if case['T'] > 2:
        c = core.deep_copy(case)
        c['T'] = 2
        c['G'] = case['G'][0:3]
        if 'r' in c:
            c['r'] = case['r'][0:3]
        yield c
    for key in ('alpha1', 'alpha2', 'theta'):
        v = round(case[key], 4)
        if v != case[key] and False:
            pass
    if len(set(case['G'])) > 1:
        c = core.deep_copy(case)
        c['G'] = [case['G'][0]] * len(case['G'])
        yield c
    if case.get('r') and len(set(case['r'])) > 1:
        c = core.deep_copy(case)
        c['r'] = [case['r'][0]] * len(case['r'])
        yield c
    for key in ('V0', 'YD0', 'B0'):
        if case.get(key):
            c = core.deep_copy(case)
            c[key] = 0.0
            yield c


simplifiers = (simplify,)


# ---- closed-form reference models ---------------------------------------------------------

def ref_sim(c):
    a1, a2, th = c['alpha1'], c['alpha2'], c['theta']
    H = [c['V0']]
    out = {'Y': [None], 'T': [None], 'YD': [None], 'C': [None], 'H': H}
    for k in range(1, c['T'] + 1):
        G = c['G'][k]
        Y = (G + a2 * H[k - 1]) / (1.0 - a1 * (1.0 - th))
        T = th * Y
        YD = Y - T
        C = a1 * YD + a2 * H[k - 1]
        H.append(H[k - 1] + YD - C)
        out['Y'].append(Y)
        out['T'].append(T)
        out['YD'].append(YD)
        out['C'].append(C)
    return out


def ref_simex(c):
    a1, a2, th = c['alpha1'], c['alpha2'], c['theta']
    H = [c['V0']]
    YDs = [c['YD0']]
    out = {'Y': [None], 'T': [None], 'YD': YDs, 'C': [None], 'H': H}
    for k in range(1, c['T'] + 1):
        G = c['G'][k]
        C = a1 * YDs[k - 1] + a2 * H[k - 1]
        Y = G + C
        T = th * Y
        YD = Y - T
        H.append(H[k - 1] + YD - C)
        YDs.append(YD)
        out['Y'].append(Y)
        out['T'].append(T)
        out['C'].append(C)
    return out


def ref_pc(c):
    a1, a2, th = c['alpha1'], c['alpha2'], c['theta']
    l0, l1, l2 = c['l0'], c['l1'], c['l2']
    V = [c['V0']]
    B = [c['B0']]
    out = {'Y': [None], 'T': [None], 'YD': [None], 'C': [None], 'H': V, 'B': B, 'M': [None], 'GD': V}
    for k in range(1, c['T'] + 1):
        G = c['G'][k]
        rB = c['r'][k - 1] * B[k - 1]
        Y = (G + a1 * (1.0 - th) * rB + a2 * V[k - 1]) / (1.0 - a1 * (1.0 - th))
        T = th * (Y + rB)
        YD = Y + rB - T
        C = a1 * YD + a2 * V[k - 1]
        Vk = V[k - 1] + YD - C
        Bk = Vk * (l0 + l1 * c['r'][k]) - l2 * YD
        V.append(Vk)
        B.append(Bk)
        out['Y'].append(Y)
        out['T'].append(T)
        out['YD'].append(YD)
        out['C'].append(C)
        out['M'].append(Vk - Bk)
    return out


# ---- running the real thing ------------------------------------------------------------------

def run_builder(c, tol=1e-12):
    core.import_sut()
    import sfc_models.gl_book.chapter3 as ch3
    import sfc_models.gl_book.chapter4 as ch4
    cls = {'SIM': ch3.SIM, 'SIMEX1': ch3.SIMEX1, 'PC': ch4.PC}[c['which']]
    # book_exo: the builder is left in its default configuration (it defines the book's own spending / interest-rate
    # paths) and the paths of this run are stated afterwards on the same sector objects: the later statement counts
    b = cls('C1', use_book_exogenous=bool(c.get('book_exo', False)))
    model = b.build_model()
    ctry = b.Country
    hh = ctry['HH']
    tf = ctry['TF']
    if c.get('params_exo'):
        # the same parameters supplied as (constant) exogenous series instead of attributes
        n = c['T'] + 2
        hh.SetExogenous('AlphaIncome', [c['alpha1']] * n)
        hh.SetExogenous('AlphaFin', [c['alpha2']] * n)
        tf.SetExogenous('TaxRate', [c['theta']] * n)
    else:
        hh.AlphaIncome = c['alpha1']
        hh.AlphaFin = c['alpha2']
        tf.TaxRate = c['theta']
    gov = ctry['TRE'] if c['which'] == 'PC' else ctry['GOV']
    gov.SetExogenous('DEM_GOOD', list(c['G']))
    book = bool(c.get('book_exo', False))     # then the builder also stated the book's initial conditions: restate all
    if c['V0'] or (book and c['which'] == 'PC'):
        hh.AddInitialCondition('F', c['V0'])
        gov.AddInitialCondition('F', -c['V0'])
    if c['which'] in ('SIMEX1', 'PC') and (c.get('YD0') or c['V0'] or book):
        hh.AddInitialCondition('AfterTax', c.get('YD0', 0.0))
    if c['which'] == 'PC':
        hh.SetEquationRightHandSide('L0', repr(c['l0']))
        hh.SetEquationRightHandSide('L1', repr(c['l1']))
        hh.SetEquationRightHandSide('L2', repr(c['l2']))
        ctry['DEP'].SetExogenous('r', list(c['r']))
        if ((c['B0'] or c['V0']) and not c.get('derive_B0')) or book:
            hh.AddInitialCondition('DEM_DEP', c['B0'])
    model.MaxTime = c['T']
    model.EquationSolver.ParameterErrorTolerance = tol
    model.EquationSolver.MaxIterations = 5000
    with warnings.catch_warnings(), contextlib.redirect_stdout(io.StringIO()):
        warnings.simplefilter('ignore')
        model.main()
        if c.get('resolve'):
            # the same solver object is asked to solve again (no re-parse): the recursions hold for that run too
            model.EquationSolver.SolveEquation()
    ts = model.EquationSolver.TimeSeries
    gcode = 'TRE' if c['which'] == 'PC' else 'GOV'
    got = {'Y': ts['GOOD__SUP_GOOD'], 'T': ts[gcode + '__T'], 'YD': ts['HH__AfterTax'], 'C': ts['HH__DEM_GOOD'],
           'H': ts['HH__F']}
    if c['which'] == 'PC':
        got['B'] = ts['HH__DEM_DEP']
        got['M'] = ts['HH__DEM_MON']
        # the government budget constraint: with the central bank's profits remitted, the Treasury's debt is the
        # private sector's wealth in every period (it is at k=0 by construction of the initial stocks)
        # Only for a start without bills: an initial bill holding stated on the household alone has no counterpart
        # on the issuer's books at k=0 (the cases state no initial condition for the Treasury's supply of bills).
        if not c.get('B0'):
            got['GD'] = [-x for x in ts['TRE__F']]
    return {k: list(v) for k, v in got.items()}


def run_iter(c):
    core.import_sut()
    from sfc_models.gl_book.model_SIM_iterative import ModelSIMiterative
    m = ModelSIMiterative()
    m.theta, m.alpha1, m.alpha2 = c['theta'], c['alpha1'], c['alpha2']
    m.G = list(c['G'])
    m.H = [c['V0']]
    if c.get('method2'):
        # the class's second stepping method: whole-vector fixed-point passes (it refuses with ValueError when 100 passes
        # are not enough - then nothing is claimed)
        while m.T < len(m.G):
            m.RunMethod2()
    else:
        m.main()
    return {'Y': m.Y, 'T': m.tax, 'YD': m.YD, 'C': m.C, 'H': m.H}


def execute(case):
    stats = {'runs': 1, 'probes': {}, 'which': {case['which']: 1}, 'grid': {'on' if case['on_grid'] else 'off': 1},
             'simulated_periods': 0}
    viol = []
    ref = {'SIM': ref_sim, 'ITER': ref_sim, 'SIMEX1': ref_simex, 'PC': ref_pc}[case['which']](case)
    if case['which'] == 'PC':
        # admissibility: bill share inside (0, 1) along the reference path
        for k in range(1, case['T'] + 1):
            share = ref['B'][k] / ref['H'][k] if ref['H'][k] else 0.5
            if not (0.0 < share < 1.0):
                stats['probes']['inadmissible_portfolio_skipped'] = 1
                return {'violations': [], 'stats': stats, 'sig': 'inadmissible', 'digest': core.digest(case), 'nontrivial': False}
    try:
        got = run_iter(case) if case['which'] == 'ITER' else run_builder(case)
        outcome = 'ok'
    except Exception as ex:   # noqa
        outcome = type(ex).__name__
        stats['outcome'] = {outcome: 1}
        if outcome == 'ValueError' and case.get('method2') and 'No convergence' in str(ex):
            stats['inconclusive_nonconvergent'] = 1
            stats['probes']['method2_refused'] = 1
            return {'violations': [], 'stats': stats, 'sig': 'method2-refused', 'digest': core.digest(case), 'nontrivial': False}
        if outcome == 'ConvergenceError':
            stats['inconclusive_nonconvergent'] = 1
            return {'violations': [], 'stats': stats, 'sig': 'failed', 'digest': core.digest([case, outcome]), 'nontrivial': False}
        viol.append(core.violation(ID, 'builder-failed', 'builder-failed:' + outcome, error=str(ex)[0:200], which=case['which']))
        return {'violations': viol, 'stats': stats, 'sig': 'failed', 'digest': core.digest([case, outcome]), 'nontrivial': True}
    stats['outcome'] = {'ok': 1}
    T = case['T']
    stats['simulated_periods'] = T
    q = case['alpha1'] * (1 - case['theta'])
    worst = None
    for key in sorted(ref):
        if key not in got:
            continue
        for k in range(1, T + 1):
            w = ref[key][k]
            if w is None:
                continue
            if len(got[key]) <= k:
                viol.append(core.violation(ID, 'series-too-short', 'series-too-short', series=key, length=len(got[key])))
                break
            g = got[key][k]
            scale = max(1.0, abs(w))
            if case['which'] == 'ITER':
                bound = 5e-3 * (k + 1) / (1.0 - q)
            else:
                bound = 1e-8 * scale
            err = abs(g - w)
            if err > bound and (worst is None or err / scale > worst[0]):
                worst = (err / scale, key, k, g, w)
        if viol:
            break
    if worst and not viol:
        grid = 'on-grid' if case['on_grid'] else 'off-grid'
        viol.append(core.violation(ID, 'differs-from-closed-form', 'differs-from-closed-form:%s:%s' % (case['which'], grid),
                                   series=worst[1], k=worst[2], got=worst[3], closed_form=worst[4], rel_error=worst[0],
                                   alpha1=case['alpha1'], alpha2=case['alpha2'], theta=case['theta']))
    if case.get('jumps'):
        stats['probes']['path_with_jumps'] = 1
    if case['V0']:
        stats['probes']['initial_stocks'] = 1
    if case.get('method2'):
        stats['probes']['iterative_model_stepped_with_method2'] = 1
    if case.get('resolve'):
        stats['probes']['solved_twice_on_the_same_solver'] = 1
    if case.get('params_exo'):
        stats['probes']['parameters_given_as_exogenous_series'] = 1
    if case.get('book_exo'):
        stats['probes']['paths_restated_over_builder_defaults'] = 1
    sig = core.digest([case['which'], case['on_grid'], case['T'], case['jumps'], bool(case['V0']), bool(case.get('YD0')),
                       [i for i in range(1, len(case['G'])) if case['G'][i] != case['G'][i - 1]]])
    return {'violations': viol, 'stats': stats, 'sig': sig, 'digest': core.digest([case['which'], got]), 'nontrivial': True}
