"""
Oracles over a solved ECON session: conservation per currency (C01), market clearing and
allocation (C04), FX value conservation (C07), each as a list of numeric discrepancies
(kind, signature, details, magnitude, scale) so that the caller applies thresholds and the
tight-tolerance confirmation pass.
"""
from . import core
from . import econ
from . import econref as R


def _ts(sess, mh):
    return sess.H[mh].EquationSolver.TimeSeries


def _get(ts, name):
    v = ts.get(name)
    return v


def sector_series(sess, mh, sh, local):
    """Series of a sector's local variable via GetVariableName (public API); None if absent."""
    sec = sess.H.get(sh)
    if sec is None:
        return None
    try:
        name = sec.GetVariableName(local)
    except Exception:   # noqa
        return None
    return _ts(sess, mh).get(name)


def horizon(sess, mh):
    ts = _ts(sess, mh)
    return len(ts['k']) - 1 if 'k' in ts else 0


def has_initial_stocks(ops):
    for op in ops:
        if op['op'] == 'AddInitialCondition':
            return True
        if op['op'] in ('GoldStandardGovernment', 'GoldStandardCentralBank', 'SetGoldPurchases'):
            return True
        if op['op'] == 'Builder' and op.get('book_exo'):
            return True
    return False


def first_period(ops):
    return 2 if has_initial_stocks(ops) else 1


def scale_of(ts, k):
    m = 1.0
    for v in ts.values():
        if len(v) > k and core.is_finite_number(v[k]):
            a = abs(v[k])
            if a > m:
                m = a
    return m


class Disc(object):
    def __init__(self, prop, kind, signature, magnitude, scale, **details):
        self.prop = prop
        self.kind = kind
        self.signature = signature
        self.magnitude = magnitude
        self.scale = scale
        self.details = details

    def rel(self):
        return self.magnitude / (1.0 + self.scale)

    def violation(self):
        return core.violation(self.prop, self.kind, self.signature, magnitude=self.magnitude, scale=self.scale,
                              **self.details)


def worst(discs):
    best = {}
    for d in discs:
        key = (d.prop, d.kind, d.signature)
        if key not in best or d.rel() > best[key].rel():
            best[key] = d
    return list(best.values())


# ---------------------------------------------------------------------------------------
# C01 (1): per-currency conservation, located through the public object API only
# ---------------------------------------------------------------------------------------

def conservation(sess, ops, mh):
    out = []
    model = sess.H[mh]
    ts = _ts(sess, mh)
    T = horizon(sess, mh)
    k0 = first_period(ops)
    ext = model.ExternalSector
    for cz in model.CurrencyZoneList:
        cur = cz.Currency
        if ext is not None and cz is ext.CurrencyZone and not any(s_.HasF for s_ in cz.GetSectors()):
            continue      # the external sector's own zone holds no financial assets unless the program put a sector there
        if ext is not None and cz is ext.CurrencyZone and \
                any(op['op'] in ('GoldStandardGovernment', 'GoldStandardCentralBank', 'SetGoldPurchases') for op in ops):
            continue      # gold is bought from outside the model: the numeraire position is open by design
        fs = []
        for s in cz.GetSectors():
            if s.HasF:
                name = s.GetVariableName('F')
                if name in ts:
                    fs.append((name, ts[name]))
        net = None
        if ext is not None:
            try:
                net = ts.get(ext['FX'].GetVariableName('NET_' + cur))
            except Exception:   # noqa
                net = None
        for k in range(k0, T + 1):
            tot = 0.0
            for name, ser in fs:
                tot += ser[k] - ser[k - 1]
            if net is not None:
                tot += net[k]
            out.append(Disc('C01', 'money-not-conserved', 'money-not-conserved', abs(tot), scale_of(ts, k),
                            currency=cur, k=k, residual=tot, n_sectors=len(fs), with_fx=net is not None))
    return out


# ---------------------------------------------------------------------------------------
# C01 (3): per-sector double-entry ledger from what the program declares
# ---------------------------------------------------------------------------------------

def xr_series(sess, mh, currency):
    model = sess.H[mh]
    ext = model.ExternalSector
    if ext is None:
        return None
    try:
        return _ts(sess, mh).get(ext['XR'].GetVariableName(currency))
    except Exception:   # noqa
        return None


def build_ledger(sess, ops, mh, d):
    """Returns {sector handle: [(sign, series, label, rate_num, rate_den)]} of every flow the
    program declares on the sector, plus the list of pairings for reporting. A flow's value at
    k is sign * series[k] * (rate_num[k]/rate_den[k] if rates given)."""
    led = {sh: [] for sh in d.order if d.sectors[sh]['hasF'] and R.zone_of(d, sh)[0] == mh}
    problems = []
    income = {}
    build_ledger.last_income = income
    excl = set(getattr(d, 'exclusions', []))

    def add(sh, sign, ser, label, num=None, den=None, inc=True):
        if sh not in led:
            return
        if ser is None:
            problems.append('missing series for %s on %s' % (label, sh))
            return
        led[sh].append((sign, ser, label, num, den))
        # flows the program excluded from income itself (declared before main(), where all of these are booked)
        flow = label.split(':', 1)[1] if ':' in label else {'dividend-received': 'DIV', 'dividend-paid': 'DIV',
                                                            'tax-paid': 'T', 'tax-received': 'T'}.get(label)
        if flow is not None and (sh, flow) in excl:
            inc = False
        income[(sh, len(led[sh]) - 1)] = inc

    # goods and labour markets
    for mk in R.goods_markets(d, mh):
        for sh, var in R.demanders(d, mk):
            sd = d.sectors[sh]
            excluded = sd['cls'] in R.HOUSEHOLDS and var == 'DEM_' + (sd['op'].get('good') or 'GOOD')
            add(sh, -1.0, sector_series(sess, mh, sh, var), 'demand:' + var, inc=not excluded)
        sup = R.market_suppliers(d, mk)
        if sup is None:
            problems.append('no/ambiguous supplier for ' + mk)
            continue
        for sh, _ in sup:
            var = R.supply_var_for(d, sh, mk)
            # the supplier's own supply variable already is in the supplier's currency
            add(sh, +1.0, sector_series(sess, mh, sh, var), 'supply:' + var)
    # taxes
    for tf in [s for s in d.order if d.sectors[s]['cls'] == 'TaxFlow' and R.zone_of(d, s)[0] == mh]:
        z = R.zone_of(d, tf)
        payers = [s for s in d.order if R.zone_of(d, s) == z and d.sectors[s]['taxable']]
        for sh in payers:
            add(sh, -1.0, sector_series(sess, mh, sh, 'T'), 'tax-paid', inc=False)
        paid_to = d.sectors[tf]['op'].get('paid_to') or 'GOV'
        govs = [s for s in d.order if R.zone_of(d, s) == z and d.sectors[s]['code'] == paid_to]
        if len(govs) == 1:
            add(govs[0], +1.0, sector_series(sess, mh, govs[0], 'T'), 'tax-received')
        else:
            problems.append('tax recipient not unique')
    # dividends
    div_recipients = set()
    for bs in [s for s in d.order if d.sectors[s]['cls'] == 'FixedMarginBusiness' and R.zone_of(d, s)[0] == mh]:
        ctry = d.sectors[bs]['country']
        recips = [s for s in d.order if d.sectors[s]['country'] == ctry and
                  (d.sectors[s]['cls'] == 'Capitalists' or 'DIV' in d.sectors[s]['user_vars'])]
        if recips:
            add(bs, -1.0, sector_series(sess, mh, bs, 'DIV'), 'dividend-paid', inc=False)
            if recips[0] not in div_recipients:
                # one received flow per recipient: its DIV is the sum of the profits of all paying businesses
                div_recipients.add(recips[0])
                add(recips[0], +1.0, sector_series(sess, mh, recips[0], 'DIV'), 'dividend-received')
    # deposit interest
    for dm in [s for s in d.order if d.sectors[s]['cls'] == 'DepositMarket' and R.zone_of(d, s)[0] == mh]:
        z = R.zone_of(d, dm)
        code = d.sectors[dm]['code']
        issuer = d.sectors[dm]['op'].get('issuer') or 'GOV'
        for sh in d.order:
            if R.zone_of(d, sh) != z or sh == dm:
                continue
            s = d.sectors[sh]
            if s['cls'] in R.NO_F:
                continue
            if s['code'] == issuer:
                add(sh, -1.0, sector_series(sess, mh, sh, 'INT' + code), 'interest-paid')
            elif code in s['demands'] or s['cls'] in ('CentralBank', 'GoldStandardCentralBank'):
                add(sh, +1.0, sector_series(sess, mh, sh, 'INT' + code), 'interest-received')
    # central bank remittance
    for cb in [s for s in d.order if d.sectors[s]['cls'] in ('CentralBank', 'GoldStandardCentralBank') and R.zone_of(d, s)[0] == mh]:
        tre = d.sectors[cb]['op'].get('treasury')
        for op in ops:
            if op['op'] == 'SetAttr' and op.get('obj') == cb and op.get('attr') == 'Treasury':
                tre = op.get('ref')
        ser = sector_series(sess, mh, cb, 'INTDEP')
        add(cb, -1.0, ser, 'remittance-paid')
        if tre is not None:
            add(tre, +1.0, ser, 'remittance-received')
    # registered cash flows
    for (m, src, tgt, var, inc_a, inc_b) in d.registered:
        if m != mh:
            continue
        ser = sector_series(sess, mh, src, var)
        add(src, -1.0, ser, 'registered-out:' + var, inc=inc_a)
        zs, zt = R.zone_of(d, src), R.zone_of(d, tgt)
        if zs == zt:
            add(tgt, +1.0, ser, 'registered-in:' + var, inc=inc_b)
        else:
            add(tgt, +1.0, ser, 'registered-in-fx:' + var, xr_series(sess, mh, zs[1]), xr_series(sess, mh, zt[1]), inc=inc_b)
    # gold purchases
    for g in [s for s in d.order if d.sectors[s]['cls'] in ('GoldStandardGovernment', 'GoldStandardCentralBank') and R.zone_of(d, s)[0] == mh]:
        add(g, -1.0, sector_series(sess, mh, g, 'GOLDPURCHASES'), 'gold-purchases', inc=False)
    for sh, var in d.gold_manual:
        if R.zone_of(d, sh)[0] == mh:
            add(sh, -1.0, sector_series(sess, mh, sh, var), 'gold-purchases:' + var, inc=False)
    return led, problems


def ledger(sess, ops, mh, d):
    out = []
    if d.unsupported:
        return out, ['unsupported ops: ' + ','.join(sorted(set(d.unsupported)))]
    led, problems = build_ledger(sess, ops, mh, d)
    if problems:
        return out, problems
    ts = _ts(sess, mh)
    T = horizon(sess, mh)
    for sh, flows in led.items():
        F = sector_series(sess, mh, sh, 'F')
        if F is None:
            continue
        for k in range(1, T + 1):
            want = 0.0
            for sign, ser, label, num, den in flows:
                v = ser[k]
                if num is not None and den is not None:
                    v = v * num[k] / den[k]
                want += sign * v
            got = F[k] - F[k - 1]
            out.append(Disc('C01', 'sector-ledger-mismatch', 'sector-ledger-mismatch', abs(got - want), scale_of(ts, k),
                            sector=sh, cls=d.sectors[sh]['cls'], code=R.full_code(d, sh), k=k, delta_F=got,
                            declared_flows=want, flows=[(s, l, ser[k]) for s, ser, l, _n, _d in flows]))
    return out, []


def income_ledger(sess, ops, mh, d):
    """C06 at model level: a sector's pre-tax income INC equals the signed sum of exactly those declared flows that
    are income for it (household consumption, taxes paid, dividends paid, gold purchases and flows registered with
    the income flag off are not)."""
    out = []
    if d.unsupported:
        return out, ['unsupported ops']
    led, problems = build_ledger(sess, ops, mh, d)
    income = build_ledger.last_income
    if problems:
        return out, problems
    ts = _ts(sess, mh)
    T = horizon(sess, mh)
    for sh, flows in led.items():
        INC = sector_series(sess, mh, sh, 'INC')
        if INC is None:
            continue
        # repeated registrations of one amount variable with different income flags are order dependent in their
        # merge: still well defined (coefficients add up per flag)
        for k in range(1, T + 1):
            want = 0.0
            for i, (sign, ser, label, num, den) in enumerate(flows):
                if not income.get((sh, i), True):
                    continue
                v = ser[k]
                if num is not None and den is not None:
                    v = v * num[k] / den[k]
                want += sign * v
            out.append(Disc('C06', 'income-ledger-mismatch', 'income-ledger-mismatch', abs(INC[k] - want), scale_of(ts, k),
                            sector=sh, cls=d.sectors[sh]['cls'], code=R.full_code(d, sh), k=k, INC=INC[k], declared_income=want,
                            flows=[(s_, l, income.get((sh, i), True)) for i, (s_, _ser, l, _n, _d) in enumerate(flows)]))
    return out, []


# ---------------------------------------------------------------------------------------
# C04: market clearing and allocation
# ---------------------------------------------------------------------------------------

def clearing(sess, ops, mh, d):
    out = []
    notes = []
    ts = _ts(sess, mh)
    T = horizon(sess, mh)
    for mk in R.goods_markets(d, mh):
        code = d.sectors[mk]['code']
        dem = sector_series(sess, mh, mk, 'DEM_' + code)
        sup = sector_series(sess, mh, mk, 'SUP_' + code)
        if dem is None or sup is None:
            notes.append('market series missing ' + mk)
            continue
        dlist = R.demanders(d, mk)
        dser = [(sh, var, sector_series(sess, mh, sh, var)) for sh, var in dlist]
        if any(s is None for _, _, s in dser):
            notes.append('demander series missing for ' + mk)
            continue
        sl = R.market_suppliers(d, mk)
        if sl is None:
            continue
        for k in range(1, T + 1):
            sc = scale_of(ts, k)
            tot = sum(s[k] for _, _, s in dser)
            out.append(Disc('C04', 'demand-not-sum-of-demanders', 'demand-not-sum-of-demanders', abs(dem[k] - tot), sc,
                            market=R.full_code(d, mk), k=k, total_demand=dem[k], sum_of_demanders=tot,
                            demanders=[R.full_code(d, sh) + '.' + v for sh, v, _ in dser]))
            out.append(Disc('C04', 'supply-not-demand', 'supply-not-demand', abs(sup[k] - dem[k]), sc,
                            market=R.full_code(d, mk), k=k, supply=sup[k], demand=dem[k]))
            alloc = 0.0
            for sh, _e in sl:
                mvar = 'SUP_' + R.full_code(d, sh)
                ms = sector_series(sess, mh, mk, mvar)
                own = sector_series(sess, mh, sh, R.supply_var_for(d, sh, mk))
                if ms is None or own is None:
                    notes.append('supplier series missing %s/%s' % (mk, sh))
                    alloc = None
                    break
                alloc += ms[k]
                zs, zm = R.zone_of(d, sh), R.zone_of(d, mk)
                want = ms[k]
                if zs != zm:
                    xm, xs = xr_series(sess, mh, zm[1]), xr_series(sess, mh, zs[1])
                    if xm is None or xs is None:
                        continue
                    want = ms[k] * xm[k] / xs[k]
                out.append(Disc('C04', 'supplier-amount-mismatch', 'supplier-amount-mismatch', abs(own[k] - want), sc,
                                market=R.full_code(d, mk), supplier=R.full_code(d, sh), k=k, supplier_var=own[k],
                                market_assigns=want, cross_currency=zs != zm))
            if alloc is not None:
                out.append(Disc('C04', 'allocation-not-total', 'allocation-not-total', abs(alloc - sup[k]), sc,
                                market=R.full_code(d, mk), k=k, allocated=alloc, supply=sup[k], n_suppliers=len(sl)))
    # asset allocation: demands for the weighted assets add up to F; default money demand equals F
    for sh in d.order:
        s = d.sectors[sh]
        if R.zone_of(d, sh)[0] != mh or not s['hasF']:
            continue
        F = sector_series(sess, mh, sh, 'F')
        if F is None:
            continue
        if 'weighting' in s:
            sers = [sector_series(sess, mh, sh, 'DEM_' + a) for a in s['weighting']['assets']]
            if all(x is not None for x in sers):
                for k in range(1, T + 1):
                    tot = sum(x[k] for x in sers)
                    out.append(Disc('C04', 'asset-demands-not-wealth', 'asset-demands-not-wealth', abs(tot - F[k]),
                                    scale_of(ts, k), sector=R.full_code(d, sh), k=k, sum_of_asset_demands=tot, F=F[k]))
    # money and deposit markets: total demand = sum of holders, issuer supply = total demand
    for fm in [x for x in d.order if d.sectors[x]['cls'] in ('MoneyMarket', 'DepositMarket') and R.zone_of(d, x)[0] == mh]:
        z = R.zone_of(d, fm)
        code = d.sectors[fm]['code']
        issuer = d.sectors[fm]['op'].get('issuer') or 'GOV'
        total = sector_series(sess, mh, fm, 'DEM_' + code)
        if total is None:
            continue
        holders = []
        iss = None
        for sh in d.order:
            if R.zone_of(d, sh) != z or sh == fm:
                continue
            s = d.sectors[sh]
            if s['cls'] in R.NO_F or not s['hasF']:
                continue
            if s['code'] == issuer:
                iss = sh
                continue
            ser = sector_series(sess, mh, sh, 'DEM_' + code)
            explicit = code in s['demands'] or (s['cls'] in ('CentralBank', 'GoldStandardCentralBank') and code == 'DEP') \
                or (s['cls'] == 'Treasury' and code == 'MON')
            if d.sectors[fm]['cls'] == 'MoneyMarket':
                if ser is None:
                    notes.append('money demand missing for ' + sh)
                    continue
                holders.append((sh, ser))
                if not explicit:
                    F = sector_series(sess, mh, sh, 'F')
                    for k in range(1, T + 1):
                        out.append(Disc('C04', 'default-money-demand-not-F', 'default-money-demand-not-F',
                                        abs(ser[k] - F[k]), scale_of(ts, k), sector=R.full_code(d, sh), k=k))
            elif explicit and ser is not None:
                holders.append((sh, ser))
        for k in range(1, T + 1):
            tot = sum(ser[k] for _, ser in holders)
            out.append(Disc('C04', 'asset-demand-not-sum-of-holders', 'asset-demand-not-sum-of-holders:' + d.sectors[fm]['cls'],
                            abs(total[k] - tot), scale_of(ts, k), market=R.full_code(d, fm), k=k, total=total[k],
                            sum_of_holders=tot, holders=[R.full_code(d, h) for h, _ in holders]))
        msup = sector_series(sess, mh, fm, 'SUP_' + code)
        if msup is not None:
            for k in range(1, T + 1):
                out.append(Disc('C04', 'asset-supply-not-demand', 'asset-supply-not-demand:' + d.sectors[fm]['cls'],
                                abs(msup[k] - total[k]), scale_of(ts, k), market=R.full_code(d, fm), k=k,
                                supply=msup[k], demand=total[k]))
        if iss is not None:
            isup = sector_series(sess, mh, iss, 'SUP_' + code)
            if isup is not None:
                for k in range(1, T + 1):
                    out.append(Disc('C04', 'issuer-supply-not-demand', 'issuer-supply-not-demand', abs(isup[k] - total[k]),
                                    scale_of(ts, k), market=R.full_code(d, fm), k=k))
            else:
                # the declared issuer (a sector of the market's currency zone) carries no supply at all
                for k in range(1, T + 1):
                    out.append(Disc('C04', 'issuer-supply-missing', 'issuer-supply-missing', abs(total[k]),
                                    scale_of(ts, k), market=R.full_code(d, fm), issuer=R.full_code(d, iss), k=k))
    return out, notes


# ---------------------------------------------------------------------------------------
# C07: cross-currency value conservation
# ---------------------------------------------------------------------------------------

def fx(sess, ops, mh, d):
    out = []
    notes = []
    model = sess.H[mh]
    ext = model.ExternalSector
    if ext is None:
        return out, ['no external sector']
    ts = _ts(sess, mh)
    T = horizon(sess, mh)
    fxs = ext['FX']
    nets = {}
    for cz in model.CurrencyZoneList:
        cur = cz.Currency
        try:
            nets[cur] = (ts.get(fxs.GetVariableName('NET_' + cur)), 1.0 if cur == 'NUMERAIRE' else xr_series(sess, mh, cur))
        except Exception:   # noqa
            notes.append('NET series missing for ' + cur)
    has_gold = any(op['op'] in ('GoldStandardGovernment', 'GoldStandardCentralBank', 'SetGoldPurchases') for op in ops)
    for k in range(1, T + 1):
        tot = 0.0
        ok = True
        for cur, (net, rate) in nets.items():
            if net is None or rate is None:
                ok = False
                break
            tot += net[k] * (rate if isinstance(rate, float) else rate[k])
        sc = scale_of(ts, k)
        if ok:
            out.append(Disc('C07', 'fx-value-not-conserved', 'fx-value-not-conserved', abs(tot), sc, k=k, residual=tot,
                            currencies=sorted(nets)))
        numeraire_party = any(R.zone_of(d, a)[1] == 'NUMERAIRE' or R.zone_of(d, b_)[1] == 'NUMERAIRE'
                              for (_m, a, b_, _v, _x, _y) in d.registered)
        if not has_gold and not numeraire_party and 'NUMERAIRE' in nets and nets['NUMERAIRE'][0] is not None:
            v = nets['NUMERAIRE'][0][k]
            out.append(Disc('C07', 'numeraire-position-not-zero', 'numeraire-position-not-zero', abs(v), sc, k=k, value=v))
    # registered cross-zone flows: receiver credited sender's amount * XR_s / XR_r, checked through the
    # receiving sector's ledger line in `ledger`; here the FX book itself: NET_c = sum sends - sum receives
    sends = {}
    for (m, src, tgt, var, _a, _b) in d.registered:
        if m != mh:
            continue
        zs, zt = R.zone_of(d, src), R.zone_of(d, tgt)
        if zs == zt:
            continue
        ser = sector_series(sess, mh, src, var)
        xs, xt = xr_series(sess, mh, zs[1]), xr_series(sess, mh, zt[1])
        if ser is None or xs is None or xt is None:
            notes.append('fx flow series missing')
            return out, notes
        sends.setdefault(zs[1], []).append((+1.0, ser, None, None))
        sends.setdefault(zt[1], []).append((-1.0, ser, xs, xt))
    for mk in R.goods_markets(d, mh):
        sl = R.market_suppliers(d, mk)
        if sl is None:
            continue
        for sh, _e in sl:
            zs, zm = R.zone_of(d, sh), R.zone_of(d, mk)
            if zs == zm:
                continue
            ms = sector_series(sess, mh, mk, 'SUP_' + R.full_code(d, sh))
            xm, xs = xr_series(sess, mh, zm[1]), xr_series(sess, mh, zs[1])
            if ms is None or xm is None or xs is None:
                notes.append('fx supplier series missing')
                return out, notes
            sends.setdefault(zm[1], []).append((+1.0, ms, None, None))
            sends.setdefault(zs[1], []).append((-1.0, ms, xm, xs))
    for g in [s for s in d.order if d.sectors[s]['cls'] in ('GoldStandardGovernment', 'GoldStandardCentralBank') and R.zone_of(d, s)[0] == mh]:
        ser = sector_series(sess, mh, g, 'GOLDPURCHASES')
        if ser is None:
            notes.append('gold series missing')
            return out, notes
        sends.setdefault(R.zone_of(d, g)[1], []).append((+1.0, ser, None, None))
    for sh, var in d.gold_manual:
        if R.zone_of(d, sh)[0] != mh:
            continue
        ser = sector_series(sess, mh, sh, var)
        if ser is None:
            notes.append('gold series missing')
            return out, notes
        sends.setdefault(R.zone_of(d, sh)[1], []).append((+1.0, ser, None, None))
    for cur, (net, rate) in nets.items():
        if cur == 'NUMERAIRE' or net is None:
            continue
        for k in range(1, T + 1):
            want = 0.0
            for sign, ser, num, den in sends.get(cur, []):
                v = ser[k]
                if num is not None:
                    v = v * num[k] / den[k]
                want += sign * v
            out.append(Disc('C07', 'fx-book-mismatch', 'fx-book-mismatch', abs(net[k] - want), scale_of(ts, k),
                            currency=cur, k=k, net=net[k], declared=want))
    return out, notes
