"""
Seeded generator of ECON programs (op lists) over the topology families of DESIGN.md 3.2.
Every choice comes from the PRNG streams of the run seed; the result is an explicit op list.
"""
from . import core


class B(object):
    """Op-list builder with handle allocation."""

    def __init__(self, rng):
        self.rng = rng
        self.ops = []
        self.n = {'m': 0, 'c': 0, 's': 0, 'n': 0}

    def h(self, kind):
        i = self.n[kind]
        self.n[kind] += 1
        return '%s%d' % (kind, i)

    def add(self, op):
        self.ops.append(op)
        return op.get('id')

    def model(self):
        return self.add({'op': 'Model', 'id': self.h('m')})

    def country(self, m, code, currency=None, region=False):
        return self.add({'op': 'Region' if region else 'Country', 'id': self.h('c'), 'model': m, 'code': code,
                         'currency': currency})

    def sector(self, cls, country, code=None, **kw):
        op = {'op': cls, 'id': self.h('s'), 'country': country}
        if code is not None:
            op['code'] = code
        op.update(kw)
        return self.add(op)


def grid(rng, lo, hi, on_grid=True):
    v = rng.uniform(lo, hi)
    return round(v, rng.choice([1, 2, 3, 4])) if on_grid else v


def path(rng, T, lo, hi, jumps=None, digits=2):
    """Exogenous path with 0-3 jumps at seeded periods; length T+1 (+ slack)."""
    n = T + 1 + rng.choice([0, 0, 2, 10])
    jumps = rng.randint(0, 3) if jumps is None else jumps
    at = sorted(rng.sample(range(0, T + 1), min(jumps, T + 1)))
    cur = round(rng.uniform(lo, hi), digits)
    out = []
    for i in range(n):
        if i in at:
            cur = round(rng.uniform(lo, hi), digits)
        out.append(cur)
    return out


def exo_value(rng, vals):
    """Return (value, as_tuple) in one of the accepted spellings."""
    r = rng.random()
    if r < 0.5:
        return list(vals), False
    if r < 0.7:
        return list(vals), True
    # string: only when piecewise constant with <= 2 levels, else repr
    levels = []
    for v in vals:
        if not levels or levels[-1][0] != v:
            levels.append([v, 1])
        else:
            levels[-1][1] += 1
    if len(levels) <= 3:
        return ' + '.join('[%s,]*%d' % (repr(v), n) for v, n in levels), False
    return repr(list(vals)), False


def set_exo(b, rng, sector, var, vals):
    v, tup = exo_value(rng, vals)
    op = {'op': 'SetExogenous', 'sector': sector, 'var': var, 'value': v}
    if tup:
        op['as_tuple'] = True
    b.add(op)


def add_household(b, rng, country, code, variant=None, good=None, labour=None, on_grid=True):
    variant = variant or rng.choice(['Household', 'Household', 'HouseholdWithExpectations'])
    kw = {'alpha_income': grid(rng, 0.45, 0.9, on_grid), 'alpha_fin': grid(rng, 0.1, 0.5, on_grid)}
    if good is not None:
        kw['good'] = good
    if labour is not None:
        kw['labour'] = labour
    return b.sector(variant, country, code, **kw)


def closed_country(b, rng, m, code, T, opts):
    """One self-contained economy inside country `code`. opts: dict of feature switches.
    Returns dict of handles."""
    currency = opts.get('currency')
    c = b.country(m, code, currency=currency, region=opts.get('region', False))
    names = opts.get('names', {})
    GOV = names.get('GOV', 'GOV')
    HH = names.get('HH', 'HH')
    BUS = names.get('BUS', 'BUS')
    TF = names.get('TF', 'TF')
    GOOD = names.get('GOOD', 'GOOD')
    LAB = names.get('LAB', 'LAB')
    on_grid = opts.get('on_grid', True)
    h = {'country': c}
    treasury_cb = opts.get('treasury_cb', False)
    gold = opts.get('gold', False)
    if treasury_cb:
        h['gov'] = b.sector('Treasury', c, 'TRE')
        govcode = 'TRE'
        h['cb'] = b.sector('CentralBank', c, 'CB', treasury=h['gov'] if rng.random() < 0.7 else None)
        if b.ops[-1]['treasury'] is None:
            b.add({'op': 'SetAttr', 'obj': h['cb'], 'attr': 'Treasury', 'value': None, 'ref': h['gov']})
    elif gold:
        h['gov'] = b.sector('GoldStandardGovernment', c, GOV, initial_gold=round(rng.uniform(5, 60), 1))
        govcode = GOV
    elif opts.get('fin', False) and rng.random() < 0.25:
        # a Treasury without a central bank: it issues the money itself (and declares a zero money demand of its own)
        h['gov'] = b.sector('Treasury', c, GOV)
        govcode = GOV
    else:
        h['gov'] = b.sector('ConsolidatedGovernment', c, GOV)
        govcode = GOV
    h['govcode'] = govcode
    if not gold and rng.random() < 0.08:
        # the program re-declares the government's tax variable itself (an idiom of the bundled example scripts); the
        # tax flow defines it anyway
        b.add({'op': 'AddVariable', 'sector': h['gov'], 'name': 'T', 'eqn': rng.choice(['0.', '0.', '0', '0.00'])})
    good_kw = GOOD if GOOD != 'GOOD' else None
    lab_kw = LAB if LAB != 'LAB' else None
    h['hh'] = add_household(b, rng, c, HH, variant=opts.get('hh_variant'), good=good_kw, labour=lab_kw, on_grid=on_grid)
    margin = 0.0
    if opts.get('capitalists', False):
        margin = round(rng.uniform(0.05, 0.4), 3) if on_grid else rng.uniform(0.05, 0.4)
        if rng.random() < 0.25:
            margin = 0.0       # owners exist, but the firm is run at zero margin
        h['cap'] = b.sector('Capitalists', c, names.get('CAP', 'CAP'),
                            alpha_income=grid(rng, 0.4, 0.8, on_grid), alpha_fin=grid(rng, 0.1, 0.4, on_grid),
                            **({'good': good_kw} if good_kw else {}))
    multi = opts.get('multi_output', False)
    if multi:
        h['good'] = b.sector('Market', c, GOOD)
        kw = {'markets': [h['good']], 'margin': 0.0}
        if lab_kw:
            kw['labour'] = lab_kw
        h['bus'] = b.sector('FixedMarginBusinessMultiOutput', c, BUS, **kw)
        b.add({'op': 'AddSupplier', 'market': h['good'], 'supplier': h['bus'], 'eqn': None})
    else:
        kw = {'margin': margin}
        if lab_kw:
            kw['labour'] = lab_kw
        if good_kw:
            kw['output'] = good_kw
        h['bus'] = b.sector('FixedMarginBusiness', c, BUS, **kw)
    tr = round(rng.uniform(0.05, 0.4), rng.choice([1, 2, 4])) if on_grid else rng.uniform(0.05, 0.4)
    if opts.get('own_taxrate'):
        # a taxable sector may carry its own TaxRate variable, which overrides the TaxFlow's rate for it only
        who = h['hh'] if ('cap' not in h or rng.random() < 0.5) else h['cap']
        b.add({'op': 'AddVariable', 'sector': who, 'name': 'TaxRate', 'eqn': repr(round(rng.uniform(0.05, 0.45), 2))})
    kw = {'taxrate': tr}
    if govcode != 'GOV':
        kw['paid_to'] = govcode
    h['tf'] = b.sector('TaxFlow', c, TF, **kw)
    h['lab'] = b.sector('Market', c, LAB)
    if not multi:
        h['good'] = b.sector('Market', c, GOOD)
    if opts.get('two_firms') and not multi:
        # a second firm supplies part of the goods market by an allocation rule; the first is the residual supplier
        kw2 = {'margin': 0.0}
        if lab_kw:
            kw2['labour'] = lab_kw
        if good_kw:
            kw2['output'] = good_kw
        h['bus2'] = b.sector(rng.choice(['FixedMarginBusiness', 'FixedMarginBusinessSub']), c, names.get('BUS2', 'BUS2'), **kw2)
        share = round(rng.uniform(0.1, 0.5), 2)
        b.add({'op': 'AddSupplier', 'market': h['good'], 'supplier': h['bus2'], 'eqn': '%s*DEM_%s' % (repr(share), GOOD)})
        b.add({'op': 'AddSupplier', 'market': h['good'], 'supplier': h['bus'], 'eqn': None})
    # financial markets
    if treasury_cb:
        h['mm'] = b.sector('MoneyMarket', c, None, issuer='CB')
        h['dep'] = b.sector('DepositMarket', c, None, issuer='TRE')
    elif opts.get('fin', False):
        h['mm'] = b.sector('MoneyMarket', c, None, issuer=govcode)
        if rng.random() < 0.7:
            h['dep'] = b.sector('DepositMarket', c, None, issuer=govcode)
    if 'dep' in h and opts.get('fin') and rng.random() < 0.35:
        # three assets: money (residual), deposits and a second interest-bearing asset, two explicit weights
        h['bnd'] = b.sector('DepositMarket', c, 'BND', issuer=govcode)
        w1 = round(rng.uniform(0.15, 0.4), 2)
        w2 = round(rng.uniform(0.15, 0.4), 2)
        b.add({'op': 'AssetWeighting', 'sector': h['hh'], 'weights': [['DEP', repr(w1)], ['BND', repr(w2)]], 'residual': 'MON',
               'as_dict': rng.random() < 0.5})
        set_exo(b, rng, h['dep'], 'r', path(rng, T, 0.0, 0.08, digits=3))
        set_exo(b, rng, h['bnd'], 'r', path(rng, T, 0.0, 0.08, digits=3))
    elif 'dep' in h:
        # household portfolio: weighting rule or explicit demands
        if rng.random() < 0.6:
            l0 = round(rng.uniform(0.2, 0.7), 3)
            b.add({'op': 'AddVariable', 'sector': h['hh'], 'name': 'L0', 'eqn': repr(l0)})
            if rng.random() < 0.5:
                b.add({'op': 'GetVariableName', 'sector': h['dep'], 'var': 'r', 'save_as': 'r_' + code})
                l1 = round(rng.uniform(0.5, 5.0), 2)
                eq = 'L0 + %s * {name:r_%s}' % (repr(l1), code)
            else:
                eq = 'L0'
            b.add({'op': 'AssetWeighting', 'sector': h['hh'], 'weights': [['DEP', eq]], 'residual': 'MON',
                   'as_dict': rng.random() < 0.5})
        elif rng.random() < 0.3:
            # deposit holdings given as an exogenous path: declared with the zero placeholder, filled in by main()
            b.add({'op': 'AddVariable', 'sector': h['hh'], 'name': 'DEM_DEP', 'eqn': rng.choice(['0.0', ''])})
            # (no holdings at k=0: a k=0 holding would have no counterpart on the issuer's books, whose supply of the
            # asset is endogenous and starts at zero)
            set_exo(b, rng, h['hh'], 'DEM_DEP', [0.0] + path(rng, T, 0.5, 4.0, digits=2)[1:])
            b.add({'op': 'AddVariable', 'sector': h['hh'], 'name': 'DEM_MON', 'eqn': 'F - DEM_DEP'})
        else:
            frac = round(rng.uniform(0.2, 0.8), 2)
            b.add({'op': 'AddVariable', 'sector': h['hh'], 'name': 'DEM_DEP', 'eqn': '%s * F' % repr(frac)})
            b.add({'op': 'AddVariable', 'sector': h['hh'], 'name': 'DEM_MON', 'eqn': '%s * F' % repr(round(1.0 - frac, 2))})
            # note: 1-frac rounded to 2 digits is exact for 2-digit frac
        rp = path(rng, T, 0.0, 0.08, digits=3)
        set_exo(b, rng, h['dep'], 'r', rp)
    # government demand path
    g = path(rng, T, 5.0, 60.0, digits=1)
    if opts.get('gov_demand', True):
        if GOOD == 'GOOD':
            set_exo(b, rng, h['gov'], 'DEM_GOOD', g)
        else:
            # government demand for a renamed good: declare the variable the market looks for
            b.add({'op': 'AddVariable', 'sector': h['gov'], 'name': 'DEM_' + GOOD, 'eqn': '0.0'})
            set_exo(b, rng, h['gov'], 'DEM_' + GOOD, g)
    h['names'] = {'GOV': govcode, 'HH': HH, 'BUS': BUS, 'TF': TF, 'GOOD': GOOD, 'LAB': LAB, 'code': code}
    return h


def initial_stocks(b, rng, m, h, multi_country):
    """Consistent initial stocks: HH holds +x, government -x."""
    x = round(rng.uniform(5.0, 120.0), 2)
    n = h['names']
    prefix = (n['code'] + '_') if multi_country else ''
    if rng.random() < 0.5:
        b.add({'op': 'AddInitialCondition', 'by': 'sector', 'sector': h['hh'], 'var': 'F', 'value': x})
        b.add({'op': 'AddInitialCondition', 'by': 'sector', 'sector': h['gov'], 'var': 'F', 'value': -x})
    else:
        b.add({'op': 'AddInitialCondition', 'by': 'code', 'model': m, 'fullcode': prefix + n['HH'], 'var': 'F', 'value': x})
        b.add({'op': 'AddInitialCondition', 'by': 'code', 'model': m, 'fullcode': prefix + n['GOV'], 'var': 'F', 'value': -x})


def knobs_ops(b, rng, m, T, tight=True):
    b.add({'op': 'SetAttr', 'obj': m, 'attr': 'MaxTime', 'value': T})
    if tight:
        b.add({'op': 'SetAttr', 'obj': m, 'solver': True, 'attr': 'ParameterErrorTolerance',
               'value': rng.choice([1e-10, 1e-11, 1e-12])})
        b.add({'op': 'SetAttr', 'obj': m, 'solver': True, 'attr': 'MaxIterations', 'value': rng.choice([3000, 5000])})
    else:
        if rng.random() < 0.5:
            b.add({'op': 'SetAttr', 'obj': m, 'solver': True, 'attr': 'MaxIterations', 'value': rng.choice([400, 1000])})
    if rng.random() < 0.3:
        b.add({'op': 'SetAttr', 'obj': m, 'solver': True, 'attr': 'RunEquationReduction', 'value': False})
    if rng.random() < 0.15 and T >= 1:
        b.add({'op': 'SetAttr', 'obj': m, 'solver': True, 'attr': 'TraceStep', 'value': rng.randint(1, T)})


FAMILIES = ['closed', 'closed_fin', 'pc', 'capitalists', 'federated', 'multi_currency',
            'multi_currency_supply', 'gold']


def insert_queries(ops, rng, m, n=None):
    """Read-only queries (and caller-side edits of the fresh lists they return) at seeded points of the construction
    history: they declare nothing, so the reference model ignores them and every oracle stays as it is."""
    for _ in range(n or rng.randint(1, 3)):
        secs = [(i, o) for i, o in enumerate(ops) if 'id' in o and 'country' in o and o['op'] not in ('Country', 'Region', 'GetSector')]
        ctrs = [(i, o) for i, o in enumerate(ops) if o['op'] in ('Country', 'Region')]
        if not secs or not ctrs:
            return
        what = rng.choice(['SectorVariables', 'SectorVariables', 'BlockEquationList', 'ModelSectors', 'ZoneSectors',
                           'ZoneSectors', 'ZoneLookup', 'CountryLookup', 'HasVariable'])
        q = {'op': 'Query', 'what': what, 'model': m}
        if what in ('SectorVariables', 'BlockEquationList', 'HasVariable'):
            i, o = rng.choice(secs)
            q['sector'] = o['id']
            q['code'] = rng.choice(['F', 'LAG_F', 'INC', 'DEM_GOOD', 'NOPE'])
        else:
            i, o = rng.choice(ctrs)
            q['country'] = o['id']
            q['code'] = rng.choice([x.get('code') or 'HH' for _, x in secs])
        if what in ('SectorVariables', 'BlockEquationList', 'ModelSectors', 'ZoneSectors'):
            q['then'] = rng.choice([None, 'clear', 'pop', 'pop', 'reverse', 'append'])
            q['index'] = rng.randint(0, 7)
        last = len(ops)
        mains = [j for j, x in enumerate(ops) if x['op'] == 'main']
        if mains:
            last = mains[0]
        if i + 1 > last:
            continue
        ops.insert(rng.randint(i + 1, last), q)


def gen_program(seed, family=None, tight=True, T=None, on_grid=True, with_main=True, names=None, cmap=None,
                hh_variant=None):
    """Returns (ops, info). info: {'family', 'T', 'model': handle, 'economies': [handles dict]}"""
    S = core.Streams(seed)
    rng = S['topology']
    prm = S['params']
    family = family or S['swarm'].choice(FAMILIES)
    T = T if T is not None else S['knobs'].randint(2, 7)
    b = B(rng)
    m = b.model()
    names = names or {}
    cmap = cmap or {}
    info = {'family': family, 'T': T, 'model': m, 'economies': []}
    stocks = S['params'].random() < 0.4
    if family in ('closed', 'closed_fin', 'capitalists', 'pc'):
        opts = {'fin': family == 'closed_fin', 'capitalists': family == 'capitalists' or (family == 'closed' and rng.random() < 0.2),
                'treasury_cb': family == 'pc', 'multi_output': family in ('closed',) and rng.random() < 0.3,
                'on_grid': on_grid, 'names': names, 'hh_variant': hh_variant,
                'own_taxrate': S['swarm'].random() < 0.35, 'two_firms': S['swarm'].random() < 0.25}
        if opts['capitalists']:
            opts['multi_output'] = False
        code = rng.choice(['CA', 'US', 'C1', 'X'])
        e = closed_country(b, prm, m, cmap.get(code, code), T, opts)
        info['economies'].append(e)
        if stocks and family != 'pc':
            initial_stocks(b, prm, m, e, False)
    elif family == 'two_country_one_currency':
        cur = rng.choice(['CAD', 'EUR'])
        for code in rng.sample(['CA', 'US', 'DE', 'FR'], 2):
            e = closed_country(b, prm, m, code, T, {'currency': cur, 'fin': False, 'on_grid': on_grid,
                                                    'capitalists': rng.random() < 0.3})
            info['economies'].append(e)
            if stocks:
                initial_stocks(b, prm, m, e, True)
        # NOTE: each country has its own GOV and TF; taxes are scoped to the currency zone, so with two
        # TaxFlow objects households would be taxed twice. Use per-country tax codes via taxes_paid_to
        # is not enough (TF scans the whole zone) -> family kept for C18/C04 (documented behaviour):
        info['double_tax'] = True
    elif family == 'federated':
        # central region with the government; 2-3 regions with households, firms, markets; cross supply
        treasury = rng.random() < 0.5
        c0 = b.country(m, 'GOV', currency=rng.choice([None, 'LOCAL', 'CAD']), region=True)
        e0 = {'country': c0}
        if treasury:
            e0['gov'] = b.sector('Treasury', c0, 'TRE')
            e0['cb'] = b.sector('CentralBank', c0, 'CB', treasury=e0['gov'])
            e0['mm'] = b.sector('MoneyMarket', c0, None, issuer='CB')
            e0['dep'] = b.sector('DepositMarket', c0, None, issuer='TRE')
            govcode = 'TRE'
        else:
            e0['gov'] = b.sector('ConsolidatedGovernment', c0, 'GOV')
            govcode = 'GOV'
        kw = {'taxrate': round(prm.uniform(0.1, 0.3), 2)}
        if govcode != 'GOV':
            kw['paid_to'] = govcode
        e0['tf'] = b.sector('TaxFlow', c0, 'TF', **kw)
        regs = rng.sample(['N', 'S', 'W', 'E'], rng.choice([2, 2, 3]))
        info['central'] = e0
        dem_terms = []
        for rc in regs:
            c = b.country(m, rc, region=True)
            e = {'country': c, 'names': {'code': rc}}
            e['hh'] = add_household(b, prm, c, 'HH', variant='Household', on_grid=on_grid)
            e['good'] = b.sector('Market', c, 'GOOD')
            e['bus'] = b.sector('FixedMarginBusinessMultiOutput', c, 'BUS', markets=[e['good']], margin=0.0)
            b.add({'op': 'AddSupplier', 'market': e['good'], 'supplier': e['bus'], 'eqn': None})
            e['lab'] = b.sector('Market', c, 'LAB')
            if treasury:
                frac = round(prm.uniform(0.3, 0.7), 2)
                b.add({'op': 'AddVariable', 'sector': e['hh'], 'name': 'DEM_DEP', 'eqn': '%s * F' % repr(frac)})
                b.add({'op': 'AddVariable', 'sector': e['hh'], 'name': 'DEM_MON', 'eqn': '%s * F' % repr(round(1 - frac, 2))})
            if S['swarm'].random() < 0.3:
                b.add({'op': 'AddVariable', 'sector': e['hh'], 'name': 'TaxRate', 'eqn': repr(round(prm.uniform(0.05, 0.45), 2))})
            if treasury and rng.random() < 0.3 and 'regional_dep' not in info:
                # a second interest-bearing asset whose market sits in this region while its issuer is the central treasury
                info['regional_dep'] = b.sector('DepositMarket', c, 'RBD', issuer='TRE')
                b.add({'op': 'AddVariable', 'sector': e['hh'], 'name': 'DEM_RBD', 'eqn': '0.1 * F'})
                b.add({'op': 'SetRHS', 'sector': e['hh'], 'name': 'DEM_MON', 'eqn': '%s * F' % repr(round(1 - frac - 0.1, 2))})
                set_exo(b, prm, info['regional_dep'], 'r', path(prm, T, 0.0, 0.06, digits=3))
            info['economies'].append(e)
            # government demand for this region's goods: DEM_<FullCode of the market>
            vn = 'DEM_%s_GOOD' % rc
            b.add({'op': 'AddVariable', 'sector': e0['gov'], 'name': vn, 'eqn': '0.0'})
            set_exo(b, prm, e0['gov'], vn, path(prm, T, 5.0, 40.0, digits=1))
            dem_terms.append(vn)
        b.add({'op': 'SetRHS', 'sector': e0['gov'], 'name': 'DEM_GOOD', 'eqn': ' + '.join(dem_terms)})
        if treasury:
            set_exo(b, prm, e0['dep'], 'r', path(prm, T, 0.0, 0.06, digits=3))
        # cross-region imports
        for i, e in enumerate(info['economies']):
            if rng.random() < 0.8:
                other = info['economies'][(i + 1) % len(info['economies'])]
                mu = round(prm.uniform(0.05, 0.3), 3)
                b.add({'op': 'AddVariable', 'sector': e['good'], 'name': 'MU', 'eqn': repr(mu)})
                b.add({'op': 'GetVariableName', 'sector': e['hh'], 'var': 'INC', 'save_as': 'inc_' + e['names']['code']})
                b.add({'op': 'AddSupplier', 'market': e['good'], 'supplier': other['bus'],
                       'eqn': 'MU*{name:inc_%s}' % e['names']['code']})
                b.add({'op': 'AddMarket', 'business': other['bus'], 'market': e['good']})
                if len(info['economies']) >= 3 and S['swarm'].random() < 0.4:
                    # a second rule-based supplier from the third region: both carry the short code BUS
                    third = info['economies'][(i + 2) % len(info['economies'])]
                    mu2 = round(prm.uniform(0.02, 0.15), 3)
                    b.add({'op': 'AddVariable', 'sector': e['good'], 'name': 'MU2', 'eqn': repr(mu2)})
                    b.add({'op': 'AddSupplier', 'market': e['good'], 'supplier': third['bus'],
                           'eqn': 'MU2*{name:inc_%s}' % e['names']['code']})
                    b.add({'op': 'AddMarket', 'business': third['bus'], 'market': e['good']})
    elif family in ('multi_currency', 'multi_currency_supply', 'gold'):
        n = rng.choice([2, 2, 3])
        codes = rng.sample(['CA', 'US', 'JP', 'UK'], n)
        ext_pos = rng.choice(['first', 'middle', 'last'])
        ext = None
        if ext_pos == 'first':
            ext = b.add({'op': 'ExternalSector', 'id': b.h('c'), 'model': m})
        for i, code in enumerate(codes):
            opts = {'fin': False, 'on_grid': on_grid, 'multi_output': family == 'multi_currency_supply',
                    'gold': family == 'gold' and i == 0, 'names': names, 'hh_variant': hh_variant,
                    'capitalists': family == 'multi_currency' and S['swarm'].random() < 0.35,
                    'own_taxrate': S['swarm'].random() < 0.25}
            code = cmap.get(code, code)
            codes[i] = code
            e = closed_country(b, prm, m, code, T, opts)
            info['economies'].append(e)
            if stocks and family != 'gold':
                initial_stocks(b, prm, m, e, True)
            if ext is None and ext_pos == 'middle' and i == 0:
                ext = b.add({'op': 'ExternalSector', 'id': b.h('c'), 'model': m})
        if ext is None:
            ext = b.add({'op': 'ExternalSector', 'id': b.h('c'), 'model': m})
        info['ext'] = ext
        xr = b.add({'op': 'GetSector', 'id': b.h('s'), 'country': ext, 'code': 'XR'})
        info['xr'] = xr
        # exchange rates: time varying, non-unit; ratios differ by >= 5 percent
        base = 1.0
        for i, code in enumerate(codes):
            if i == 0 and rng.random() < 0.3:
                continue     # stays at the default 1.0
            lo = 0.5 + 0.45 * i
            vals = [round(v, 3) for v in path(prm, T, lo * 1.07, lo * 1.35, digits=3)]
            set_exo(b, prm, xr, code, vals)
        # cross-zone gifts
        n_flows = rng.choice([1, 1, 2, 3]) if family != 'multi_currency_supply' else rng.choice([0, 1])
        for j in range(n_flows):
            a, c2 = rng.sample(range(n), 2)
            src = info['economies'][a][rng.choice(['hh', 'gov'])]
            tgt = info['economies'][c2][rng.choice(['hh', 'gov', 'bus'])]
            # amount variables are local to their sector: different senders may well use the same local name
            used = getattr(b, '_gift_names', set())
            vn = 'GIFT' if ((src, 'GIFT') not in used and S['swarm'].random() < 0.5) else 'GIFT%d' % j
            used.add((src, vn))
            b._gift_names = used
            amt = path(prm, T, 0.5, 6.0, digits=2)
            b.add({'op': 'AddVariable', 'sector': src, 'name': vn, 'eqn': '0.0'})
            set_exo(b, prm, src, vn, amt)
            b.add({'op': 'RegisterCashFlow', 'model': m, 'source': src, 'target': tgt, 'var': vn,
                   'inc_src': rng.random() < 0.5, 'inc_dst': rng.random() < 0.5})
            if rng.random() < 0.35:
                # the same amount variable paid out a second time, to another receiver (any zone)
                others = [e2[kk] for e2 in info['economies'] for kk in ('hh', 'gov', 'bus') if e2[kk] not in (src, tgt)]
                b.add({'op': 'RegisterCashFlow', 'model': m, 'source': src, 'target': rng.choice(others), 'var': vn,
                       'inc_src': rng.random() < 0.7, 'inc_dst': rng.random() < 0.5})
            elif S['swarm'].random() < 0.25:
                # the very same transfer (payer, receiver, amount variable) registered a second time: it is paid twice
                b.add({'op': 'RegisterCashFlow', 'model': m, 'source': src, 'target': tgt, 'var': vn,
                       'inc_src': rng.random() < 0.5, 'inc_dst': rng.random() < 0.5})
        if family == 'multi_currency' and rng.random() < 0.3:
            # a rest-of-world sector living in the external sector's own country (currency NUMERAIRE)
            row = b.sector('Sector', ext, 'ROW', has_F=True)
            e1 = info['economies'][rng.randrange(n)]
            b.add({'op': 'AddVariable', 'sector': row, 'name': 'AID', 'eqn': '0.0'})
            set_exo(b, prm, row, 'AID', path(prm, T, 0.5, 5.0, digits=2))
            b.add({'op': 'RegisterCashFlow', 'model': m, 'source': row, 'target': e1[rng.choice(['hh', 'gov'])], 'var': 'AID',
                   'inc_src': rng.random() < 0.5, 'inc_dst': rng.random() < 0.5})
            if rng.random() < 0.5:
                b.add({'op': 'AddVariable', 'sector': e1['gov'], 'name': 'DUES', 'eqn': '0.0'})
                set_exo(b, prm, e1['gov'], 'DUES', path(prm, T, 0.2, 2.0, digits=2))
                b.add({'op': 'RegisterCashFlow', 'model': m, 'source': e1['gov'], 'target': row, 'var': 'DUES'})
        if family == 'multi_currency' and ext_pos == 'first' and rng.random() < 0.45:
            # gold bought by a government, booked through the external sector's gold market while the model is
            # still under construction; afterwards one more country joins an existing currency
            gm = b.add({'op': 'GetSector', 'id': b.h('s'), 'country': ext, 'code': 'GOLD'})
            e0 = info['economies'][rng.randrange(n)]
            b.add({'op': 'AddVariable', 'sector': e0['gov'], 'name': 'GP', 'eqn': '0.0'})
            set_exo(b, prm, e0['gov'], 'GP', path(prm, T, 0.2, 3.0, digits=2))
            b.add({'op': 'SetGoldPurchases', 'gold': gm, 'sector': e0['gov'], 'var': 'GP', 'initial_stock': round(prm.uniform(5, 50), 1)})
            if rng.random() < 0.7:
                cur0 = e0['names']['code']       # Country(currency=None): the currency is the country code
                c_late = b.country(m, 'ZZ', currency=cur0)
                b.sector('Sector', c_late, 'OBS', has_F=True)
        if family == 'multi_currency_supply':
            swap = S['swarm'].random() < 0.3
            for i, e in enumerate(info['economies']):
                other = info['economies'][(i + 1) % n]
                if swap and i == 0:
                    # the residual supplier of this goods market is the *foreign* business; the domestic one supplies a
                    # fixed share of demand
                    share = round(prm.uniform(0.3, 0.8), 2)
                    b.add({'op': 'AddSupplier', 'market': e['good'], 'supplier': e['bus'],
                           'eqn': '%s*DEM_%s' % (repr(share), e['names'].get('GOOD', 'GOOD'))})
                    b.add({'op': 'AddSupplier', 'market': e['good'], 'supplier': other['bus'], 'eqn': None})
                    b.add({'op': 'AddMarket', 'business': other['bus'], 'market': e['good']})
                    continue
                if rng.random() < 0.85:
                    mu = round(prm.uniform(0.05, 0.25), 3)
                    code = e['names']['code']
                    b.add({'op': 'AddVariable', 'sector': e['good'], 'name': 'MU', 'eqn': repr(mu)})
                    b.add({'op': 'GetVariableName', 'sector': e['hh'], 'var': 'INC', 'save_as': 'inc_' + code})
                    b.add({'op': 'AddSupplier', 'market': e['good'], 'supplier': other['bus'],
                           'eqn': 'MU*{name:inc_%s}' % code})
                    b.add({'op': 'AddMarket', 'business': other['bus'], 'market': e['good']})
    else:
        raise core.HarnessError('unknown family ' + family)
    if S['swarm'].random() < 0.06:
        # a diagnostic dump somewhere in the construction history (public API; regenerates full codes)
        first_sector = [i for i, o in enumerate(b.ops) if o['op'] in ('Household', 'HouseholdWithExpectations')]
        if first_sector:
            b.ops.insert(S['swarm'].randint(first_sector[0] + 1, len(b.ops)), {'op': 'LogInfo', 'model': m})
    if S['swarm'].random() < 0.2:
        # tax-exempt dividends: the program excludes the owners' dividend income itself (public configuration call)
        caps = [o['id'] for o in b.ops if o['op'] == 'Capitalists']
        if caps:
            b.add({'op': 'Exclude', 'sector': caps[S['swarm'].randrange(len(caps))], 'name': 'DIV'})
    if S['swarm'].random() < 0.15:
        insert_queries(b.ops, S['swarm'], m)
    if S['swarm'].random() < 0.06:
        # a bystander: another Model object comes into existence while this one is being built ("two Model objects may
        # coexist; there is no interaction between them"); sometimes it gets a country and a sector of its own
        first_sector = [i for i, o in enumerate(b.ops) if 'country' in o and 'id' in o and o['op'] not in ('Country', 'Region', 'GetSector')]
        if first_sector:
            at = S['swarm'].randint(first_sector[0] + 1, len(b.ops))
            extra = [{'op': 'Model', 'id': 'm_by'}]
            if S['swarm'].random() < 0.5:
                extra += [{'op': 'Country', 'id': 'c_by', 'model': 'm_by', 'code': 'BY', 'currency': None},
                          {'op': 'Sector', 'id': 's_by', 'country': 'c_by', 'code': 'DUMMY', 'has_F': True}]
            b.ops[at:at] = extra
    knobs_ops(b, S['knobs'], m, T, tight=tight)
    if with_main:
        mo = {'op': 'main', 'model': m}
        if S['swarm'].random() < 0.12:
            mo['base_file_name'] = 'out/model_run'       # standard logs switched on (they go to SimFS)
        b.add(mo)
    return b.ops, info
