"""
Seeded grammar for equation blocks (EQN sessions) and their rendering to text.

A block is an explicit JSON structure (so it can be shrunk and replayed without the
generator):

  {"eqs":  [[var, rhs], ...],               simultaneous / alias / constant / decorative lines
   "lags": [[lagvar, source, style], ...],  style: "k" -> X(k-1), "t" -> X(t-1), "sp" -> tokenizer-spaced
   "ics":  [[var, text], ...],              var(0) = text
   "exo":  [[var, text], ...],              lines after the 'exogenous' marker (text evaluates to list/tuple/float)
   "maxtime": int | None, "err_tol": str | None}

Alongside the block the generator returns `meta` (not needed for replay, only for oracles
that depend on how the block was constructed, e.g. the guaranteed contraction factor).
"""

NAMES_SIM = ['x%d' % i for i in range(14)]
ODD_NAMES = ['Y', 'C_d', 'alpha1', 'HH__F', 'GOV__T', 'W', 'Nd', 'yd', 'inc', 'Hh']


def fl(rng, lo, hi, digits=None):
    v = rng.uniform(lo, hi)
    if digits is not None:
        v = round(v, digits)
    return v


def coef(rng, mag):
    """A signed coefficient of magnitude up to mag; sometimes round, sometimes awkward."""
    r = rng.random()
    if r < 0.4:
        v = round(rng.uniform(0.02, 1.0) * mag, 2)
    elif r < 0.8:
        v = rng.uniform(0.02, 1.0) * mag
    else:
        v = rng.choice([0.5, 0.25, 0.1, 0.125, 1.0 / 3.0]) * mag
    if v == 0.0:
        v = 0.01 * mag
    if rng.random() < 0.4:
        v = -v
    return v


def term_text(c, body):
    return '%s*%s' % (repr(abs(c)), body), (c < 0)


def join_terms(terms, const=None, rng=None):
    """terms: list of (text, negative?)."""
    out = ''
    for i, (txt, neg) in enumerate(terms):
        if i == 0:
            out += ('-' if neg else '') + txt
        else:
            out += (' - ' if neg else ' + ') + txt
    if const is not None:
        if out == '':
            out = repr(const)
        else:
            out += (' - ' if const < 0 else ' + ') + repr(abs(const))
    if out == '':
        out = '0.0'
    return out


NONLIN = [
    # (template with {v}, Lipschitz constant of the template wrt v)
    ('sqrt(1.0 + {v}*{v})', 1.0),
    ('log(1.0 + {v}*{v})', 1.0),
    ('exp(-{v}*{v})', 0.86),
    ('tanh({v})', 1.0),
    ('atan({v})', 1.0),
    ('sin({v})', 1.0),
    ('max({v}, 0.5)', 1.0),
    ('min({v}, 2.0)', 1.0),
    ('abs({v})', 1.0),
]


def gen_exo_text(rng, T, form=None, lo=-50.0, hi=50.0):
    """Text of one exogenous definition that evaluates to a list/tuple/float of length >= T+1.
    Returns (text, values list of length T+1, form)."""
    form = form or rng.choice(['list', 'list', 'tuple', 'str', 'str2', 'scalar', 'intlist'])
    if form == 'intlist':
        # integers are legal list elements (only a bare *scalar* has to be a float to be broadcast)
        n2 = T + 1 + rng.choice([0, 2])
        vals = [rng.randint(-20, 20) for _ in range(n2)]
        return '[' + ', '.join(repr(v) for v in vals) + ']', vals[0:T + 1], form
    n = T + 1 + rng.choice([0, 0, 1, 5])
    if form == 'scalar':
        v = fl(rng, lo, hi, rng.choice([None, 1]))
        return repr(v), [v] * (T + 1), form
    if form == 'str':
        v = fl(rng, lo, hi, 1)
        return '[%s,] * %d' % (repr(v), n), [v] * (T + 1), form
    if form == 'str2':
        v1 = fl(rng, lo, hi, 1)
        v2 = fl(rng, lo, hi, 1)
        cut = rng.randint(0, T + 1)
        vals = ([v1] * cut + [v2] * (n + 2))
        return '[%s,]*%d + [%s,]*%d' % (repr(v1), cut, repr(v2), n + 2), vals[0:T + 1], form
    vals = []
    base = fl(rng, lo, hi, 1)
    jumps = rng.randint(0, 3)
    jump_at = sorted(rng.sample(range(0, n), min(jumps, n)))
    cur = base
    for i in range(n):
        if i in jump_at:
            cur = fl(rng, lo, hi, rng.choice([None, 1, 2]))
        vals.append(cur)
    if form == 'tuple':
        if len(vals) == 1:
            return '(%s,)' % repr(vals[0]), vals[0:T + 1], form
        return '(' + ', '.join(repr(v) for v in vals) + ')', vals[0:T + 1], form
    return '[' + ', '.join(repr(v) for v in vals) + ']', vals[0:T + 1], form


def gen_block(rng, profile='contractive', T=None, n=None, rich=True, allow_user_t=True,
              const_mag=50.0, tol_text=None, nonlinear=None):
    """
    profile:
      contractive : sup-norm Lipschitz sum of every simultaneous row <= q <= 0.8
      expansive   : at least one row with sum well above 1 (diverges / overflows)
      mixed       : rows drawn independently
    Returns (block, meta).
    """
    if T is None:
        T = rng.randint(1, 10)
    if n is None:
        n = rng.randint(1, 8)
    names = list(NAMES_SIM[0:n])
    if rich and rng.random() < 0.3:
        # use some odd but legal names (double underscores, mixed case)
        for i in range(min(n, 3)):
            if rng.random() < 0.5:
                names[i] = ODD_NAMES[rng.randrange(len(ODD_NAMES))] + ('_%d' % i)
    n_exo = rng.randint(0, 3)
    exo_names = ['g%d' % i for i in range(n_exo)]
    n_par = rng.randint(0, 2) if rich else 0
    par_names = ['p%d' % i for i in range(n_par)]
    lag_src = [v for v in names if rng.random() < 0.5]
    lag_names = []
    lags = []
    for v in lag_src:
        ln = 'LAG_' + v
        lags.append([ln, v, rng.choice(['k', 'k', 't', 'sp'])])
        lag_names.append(ln)
    if nonlinear is None:
        nonlinear = rng.random() < 0.4

    if profile == 'contractive':
        q = rng.choice([0.8, 0.8, 0.7, 0.5, 0.3])
    elif profile == 'expansive':
        q = rng.choice([1.3, 2.0, 5.0])
    else:
        q = rng.choice([0.5, 0.8, 0.95, 1.05, 1.5])

    eqs = []
    row_sums = {}
    par_vals = {}
    for p in par_names:
        pv = round(rng.uniform(0.05, 0.95), rng.choice([1, 2, 4]))
        par_vals[p] = pv
    for i, v in enumerate(names):
        terms = []
        # how much of q this row uses
        if profile == 'expansive' and i == 0:
            budget = q
        elif profile == 'expansive':
            budget = rng.uniform(0.1, 0.9)
        elif profile == 'mixed':
            budget = q * rng.uniform(0.3, 1.0)
        else:
            budget = q * rng.choice([1.0, 1.0, rng.uniform(0.2, 1.0)])
        k_terms = rng.randint(1, min(4, n)) if n > 0 else 0
        others = rng.sample(names, k_terms)
        if profile == 'expansive' and i == 0 and v not in others:
            others[0] = v
        weights = [rng.uniform(0.2, 1.0) for _ in others]
        tot = sum(weights)
        used = 0.0
        for o, w in zip(others, weights):
            c = budget * w / tot
            c = float(repr(c))
            if rng.random() < 0.45:
                c = -c
            if nonlinear and rng.random() < 0.35:
                tmpl, L = NONLIN[rng.randrange(len(NONLIN))]
                body = tmpl.format(v=o)
                used += abs(c) * L
            elif par_names and rng.random() < 0.2:
                # parameter times variable: Lipschitz = |c| * |p| (p in (0,1))
                p = rng.choice(par_names)
                body = '%s*%s' % (p, o)
                used += abs(c) * par_vals[p]
            else:
                body = o
                used += abs(c)
            terms.append(term_text(c, body))
        for ln in lag_names:
            if rng.random() < 0.35:
                terms.append(term_text(coef(rng, 1.0), ln))
        for g in exo_names:
            if rng.random() < 0.5:
                terms.append(term_text(coef(rng, 2.0), g))
        rng.shuffle(terms)
        const = None
        if rng.random() < 0.8:
            const = fl(rng, -const_mag, const_mag, rng.choice([None, 1, 2]))
        eqs.append([v, join_terms(terms, const)])
        row_sums[v] = used
    for p in par_names:
        txt = repr(par_vals[p])
        r_ = rng.random()
        if r_ < 0.2:
            # a constant written as an expression (no names in it): '1.0 - 0.4', '3/4', '(0.25)'
            a_ = round(rng.uniform(0.05, 0.6), 2)
            b_ = round(par_vals[p] + a_, 6)
            txt = '%s - %s' % (repr(b_), repr(a_))
            par_vals[p] = eval(txt)
        elif r_ < 0.3:
            num = rng.choice([1, 1, 3])
            den = rng.choice([4, 5, 8])
            txt = '%d/%d' % (num, den)
            par_vals[p] = num / den
        eqs.append([p, txt])
    if rich and rng.random() < 0.15:
        # an integer-valued constant that nothing refers to (k=0 value is an int), and one something refers to
        eqs.append(['n0', repr(rng.randint(1, 9))])
        if rng.random() < 0.5 and names:
            lag_names_n = 'LAG_n0'
            lags.append([lag_names_n, 'n0', 'k'])

    exo = []
    exo_vals = {}
    for g in exo_names:
        txt, vals, form = gen_exo_text(rng, T)
        exo.append([g, txt])
        exo_vals[g] = vals

    aliases = []
    decos = []
    if rich:
        # alias chains: of simultaneous, lagged, exogenous, constant variables
        pool = [(v, 'sim') for v in names] + [(v, 'lag') for v in lag_names] + \
               [(v, 'exo') for v in exo_names] + [(v, 'par') for v in par_names]
        n_alias = rng.choice([0, 0, 1, 2, 3, 4])
        for i in range(n_alias):
            if not pool:
                break
            tgt, kind = pool[rng.randrange(len(pool))]
            an = 'a%d' % i
            lead = '+' if rng.random() < 0.15 else ''
            eqs.append([an, lead + tgt])
            aliases.append((an, tgt, kind))
            pool.append((an, 'alias'))
            # sometimes let a simultaneous equation use the alias instead of its target
            if rng.random() < 0.5 and kind in ('sim', 'alias'):
                j = rng.randrange(n)
                v, rhs = eqs[j]
                if tgt in _names_in(rhs):
                    eqs[j][1] = _replace_name(rhs, tgt, an)
        n_deco = rng.choice([0, 0, 1, 2, 3])
        dpool = names + lag_names + exo_names + [a[0] for a in aliases]
        for i in range(n_deco):
            dn = 'd%d' % i
            k_terms = rng.randint(1, 3)
            terms = []
            for o in rng.sample(dpool, min(k_terms, len(dpool))):
                terms.append(term_text(coef(rng, 2.0), o))
            const = fl(rng, -5, 5, 1) if rng.random() < 0.5 else None
            decos.append(dn)
            eqs.append([dn, join_terms(terms, const)])
            dpool.append(dn)   # chains / trees of decoration
    user_t = None
    if allow_user_t and rng.random() < 0.15:
        if rng.random() < 0.5:
            user_t = 'k + 1950.0'
            eqs.append(['t', user_t])
        else:
            vals = [2000.0 + 0.25 * i for i in range(T + 1)]
            exo.append(['t', '[' + ', '.join(repr(v) for v in vals) + ']'])
            exo_vals['t'] = vals
            user_t = 'exo'
    # initial conditions
    ics = []
    if rng.random() < 0.7:
        cands = names + lag_names + par_names + [a[0] for a in aliases] + decos
        for v in cands:
            if rng.random() < 0.3:
                val = fl(rng, -const_mag, const_mag, rng.choice([None, 1]))
                ics.append([v, repr(val)])
    # shuffle equation order (the library promises nothing about order; keep params anywhere)
    if rng.random() < 0.5:
        rng.shuffle(eqs)
    block = {'eqs': eqs, 'lags': lags, 'ics': ics, 'exo': exo,
             'maxtime': T, 'err_tol': tol_text}
    meta = {'q': q, 'profile': profile, 'row_sums': row_sums, 'n': n, 'T': T,
            'sim': names, 'lag_names': lag_names, 'exo_names': exo_names,
            'aliases': [a[0] for a in aliases], 'decos': decos, 'user_t': user_t,
            'nonlinear': bool(nonlinear)}
    return block, meta


def _names_in(txt):
    import re
    return re.findall(r'[A-Za-z_][A-Za-z_0-9]*', txt)


def _replace_name(txt, old, new):
    import re
    return re.sub(r'(?<![A-Za-z_0-9])' + re.escape(old) + r'(?![A-Za-z_0-9])', new, txt)


def render(block):
    """Render a block structure as the text handed to ParseString."""
    lines = []
    for var, rhs in block.get('eqs', []):
        lines.append('%s = %s' % (var, rhs))
    for lagvar, src, style in block.get('lags', []):
        if style == 'k':
            lines.append('%s = %s(k-1)' % (lagvar, src))
        elif style == 't':
            lines.append('%s = %s(t-1)' % (lagvar, src))
        else:
            # the form the model emits after token replacement: 'X (k -1 )'
            lines.append('%s = %s (k -1 )' % (lagvar, src))
    for var, txt in block.get('ics', []):
        lines.append('%s(0) = %s' % (var, txt))
    lines.append('')
    lines.append('exogenous')
    for var, txt in block.get('exo', []):
        lines.append('%s = %s' % (var, txt))
    if block.get('maxtime') is not None:
        lines.append('MaxTime = %d' % block['maxtime'])
    if block.get('err_tol') is not None:
        lines.append('Err_Tolerance = %s' % block['err_tol'])
    return '\n'.join(lines)


def block_signature(block):
    """Structure signature (shape, not numbers) used to count distinct cases."""
    import re
    def shape(rhs):
        s = re.sub(r'[0-9]+\.?[0-9]*(e[-+]?[0-9]+)?', '#', rhs)
        return s
    return (tuple(sorted((v, shape(r)) for v, r in block.get('eqs', []))),
            tuple(sorted((a, b, c) for a, b, c in block.get('lags', []))),
            tuple(sorted(v for v, _ in block.get('ics', []))),
            tuple(sorted(v for v, _ in block.get('exo', []))),
            block.get('maxtime'), block.get('err_tol'))
