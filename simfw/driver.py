"""
Parallel seeded driver: runs many simulated sessions of one property, minimises and replays
violations, matches known findings, writes the evidence file.

Exit codes: 0 held (possibly with KNOWN-FINDING lines), 1 VIOLATION, 2 HARNESS-ERROR.
"""
import concurrent.futures
import faulthandler
import importlib
import json
import multiprocessing
import os
import pickle
import re
import subprocess
import sys
import time
import traceback

from . import core

VERIF_DIR = os.path.dirname(os.path.dirname(os.path.abspath(__file__)))
OUT_DIR = os.path.join(VERIF_DIR, 'out')
REPLAY_DIR = os.path.join(OUT_DIR, 'replays')
EVIDENCE_DIR = os.environ.get('VERIF_EVIDENCE_DIR') or os.path.join(VERIF_DIR, 'evidence')
KNOWN_FILE = os.path.join(VERIF_DIR, 'known_findings.json')

BLOCK = 25            # run indices per task
TASK_TIMEOUT = 900    # seconds before a worker dumps its stack and dies
MAX_MINIMISE_PER_TASK = 2


def load_prop(pid):
    return importlib.import_module('simfw.props.' + pid.lower())


def load_known():
    if not os.path.exists(KNOWN_FILE):
        return []
    with open(KNOWN_FILE) as f:
        return json.load(f).get('findings', [])


def match_known(viol, known):
    """Return the open known-finding entry matching this violation, or None.
    An entry matches on property + signature (exact, or regex when it starts with 're:') and on
    every `where` predicate (regex over str(details[key]))."""
    for e in known:
        if e.get('status') != 'open':
            continue
        if e['property'] != viol['property']:
            continue
        sig = e['signature']
        if sig.startswith('re:'):
            if not re.fullmatch(sig[3:], viol['signature']):
                continue
        elif sig != viol['signature']:
            continue
        ok = True
        for key, rx in e.get('where', {}).items():
            if not re.search(rx, str(viol.get('details', {}).get(key, ''))):
                ok = False
                break
        if ok:
            return e
    return None


# ---------------------------------------------------------------------------------------
# one task = a block of run indices, executed in a forked worker
# ---------------------------------------------------------------------------------------

def execute_guarded(mod, case):
    """Run a case; harness exceptions are HarnessError, never violations."""
    try:
        return mod.execute(case)
    except core.HarnessError:
        raise
    except Exception:   # noqa
        raise core.HarnessError('executor crashed:\n' + traceback.format_exc())


def first_violation(res):
    return res['violations'][0] if res['violations'] else None


def minimise(mod, case, viol, budget=300):
    valid = getattr(mod, 'valid', None)

    def fails(c):
        try:
            if valid is not None and not valid(c):
                return False
            r = mod.execute(c)
        except Exception:   # noqa
            return False
        return any(core.same_class(v, viol) for v in r['violations'])
    paths = getattr(mod, 'list_paths', lambda c: [])
    simps = getattr(mod, 'simplifiers', ())
    try:
        return core.minimise_case(core.deep_copy(case), fails, paths, simps, max_tests=budget)
    except Exception:   # noqa
        return case


def in_pristine_child(fn, *a):
    """Run fn(*a) in a forked child of this (never-executing) process and return its pickled result, so that whatever
    process-global state the library keeps cannot travel from one task, replay or minimisation test to the next:
    one block of run indices = one process history, whichever worker picks it up."""
    r, w = os.pipe()
    child = os.fork()
    if child == 0:
        code = 1
        try:
            os.close(r)
            data = pickle.dumps(fn(*a))
            with os.fdopen(w, 'wb') as f:
                f.write(data)
            code = 0
        finally:
            os._exit(code)
    os.close(w)
    with os.fdopen(r, 'rb') as f:
        data = f.read()
    os.waitpid(child, 0)
    if not data:
        return None
    return pickle.loads(data)


def generate_block(args):
    pid, tier, verif_seed, start, stop, known = args
    faulthandler.dump_traceback_later(TASK_TIMEOUT, exit=True)
    try:
        mod = load_prop(pid)
        out = []
        for index in range(start, stop):
            seed = core.run_seed(verif_seed, pid, tier, index)
            out.append((seed, mod.generate(seed, tier)))
        return {'ok': True, 'cases': out}
    except Exception:   # noqa
        return {'ok': False, 'error': traceback.format_exc()}
    finally:
        faulthandler.cancel_dump_traceback_later()


def run_task(args):
    # generators may run the library themselves (dry passes that place faults): they get a process of their own, so
    # that the process history of a block consists of the executed cases and nothing else
    gen = in_pristine_child(generate_block, args)
    if gen is None:
        return {'ok': False, 'error': 'task %r: generator process died or timed out (see stderr)' % (args[3:5],)}
    if not gen['ok']:
        return gen
    res = in_pristine_child(run_task_inner, args, gen['cases'])
    if res is None:
        return {'ok': False, 'error': 'task %r: child process died or timed out (see stderr)' % (args[3:5],)}
    return res


def run_sequence(pid, sequence, case):
    """Execute earlier cases of a process history, then the case; returns the case's result."""
    mod = load_prop(pid)
    core.import_sut()
    for c in sequence:
        try:
            mod.execute(core.deep_copy(c))
        except Exception:   # noqa
            pass
    return execute_guarded(mod, core.deep_copy(case))


def run_task_inner(args, cases):
    pid, tier, verif_seed, start, stop, known = args
    faulthandler.dump_traceback_later(TASK_TIMEOUT, exit=True)
    try:
        mod = load_prop(pid)
        core.import_sut()
        rows = []
        minimised = 0
        seen_sigs = set()
        history = []
        disturbed = False
        for index in range(start, stop):
            seed, case = cases[index - start]
            t0 = time.perf_counter()
            res = execute_guarded(mod, case)
            row = {'index': index, 'seed': seed, 'sig': res.get('sig', ''), 'digest': res.get('digest', ''),
                   'nontrivial': bool(res.get('nontrivial', True)), 'stats': res.get('stats', {}),
                   'violations': [], 'dt': time.perf_counter() - t0}
            if res['violations']:
                # confirm by re-running the explicit case (not the generator)
                res2 = execute_guarded(mod, core.deep_copy(case))
                for v in res['violations']:
                    confirmed = any(core.same_class(v, w) for w in res2['violations'])
                    if not confirmed:
                        # the same explicit case gave another answer the second time: either the harness is not
                        # deterministic, or the library carried state over from earlier runs of this process. The
                        # driver decides which by re-executing this block's history in a pristine process.
                        if disturbed:
                            # this block already reports a confirmed violation (exit 1 either way) and its history
                            # has been disturbed by the minimiser: nothing can be decided about this one
                            row['stats'].setdefault('probes', {})['unconfirmed_after_minimiser_ran'] = 1
                            continue
                        row['violations'].append({'violation': v, 'case': case, 'minimised': False,
                                                  'sequence': list(history)})
                        return {'ok': True, 'rows': rows + [row]}
                    disturbed = True    # re-runs and minimisation below are not part of the generated history
                    key = (v['kind'], v['signature'])
                    entry = {'violation': v, 'case': None, 'minimised': False}
                    is_known = match_known(v, known) is not None
                    if key not in seen_sigs and minimised < MAX_MINIMISE_PER_TASK:
                        seen_sigs.add(key)
                        minimised += 1
                        small = minimise(mod, case, v, budget=120 if is_known else 400)
                        r3 = execute_guarded(mod, core.deep_copy(small))
                        vv = [w for w in r3['violations'] if core.same_class(w, v)]
                        if vv:
                            entry = {'violation': vv[0], 'case': small, 'minimised': True}
                        else:
                            entry = {'violation': v, 'case': case, 'minimised': False}
                    elif key not in seen_sigs:
                        seen_sigs.add(key)
                        entry['case'] = case
                    row['violations'].append(entry)
            rows.append(row)
            history.append(case)
            if index == start:
                rows[-1]['sample_case'] = case
        return {'ok': True, 'rows': rows}
    except core.HarnessError as ex:
        return {'ok': False, 'error': str(ex)}
    except Exception:   # noqa
        return {'ok': False, 'error': traceback.format_exc()}
    finally:
        faulthandler.cancel_dump_traceback_later()


# ---------------------------------------------------------------------------------------
# check
# ---------------------------------------------------------------------------------------

def merge_stats(total, stats):
    for k, v in stats.items():
        if isinstance(v, dict):
            d = total.setdefault(k, {})
            merge_stats(d, v)
        elif isinstance(v, (int, float)) and not isinstance(v, bool):
            if str(k).startswith('max_'):
                total[k] = max(total.get(k, 0), v)
            else:
                total[k] = total.get(k, 0) + v


def write_replay(pid, seed, tier, case, viol, sequence=None):
    os.makedirs(REPLAY_DIR, exist_ok=True)
    path = os.path.join(REPLAY_DIR, '%s-%d-%s.json' % (pid, seed, core.digest(viol['signature'])[0:6]))
    data = {'property': pid, 'seed': seed, 'tier': tier, 'case': case, 'violation': viol}
    if sequence is not None:
        # earlier runs of the same process, executed first: the violation needs the state they leave behind
        data['sequence'] = sequence
    with open(path, 'w') as f:
        json.dump(data, f, indent=1, sort_keys=True)
    return path


def minimise_sequence(pid, sequence, case, viol, budget=40):
    """Shrink the process history a violation needs (each test in its own pristine process)."""
    tests = [0]

    def fails(seq):
        if tests[0] >= budget:
            return False
        tests[0] += 1
        r = in_pristine_child(run_sequence_safe, pid, seq, case)
        return bool(r) and any(core.same_class(v, viol) for v in r['violations'])
    if not fails(sequence):
        return None
    # shortest suffix first (the state usually comes from the last few runs), then ddmin
    n = 1
    while n < len(sequence):
        if fails(sequence[-n:]):
            sequence = sequence[-n:]
            break
        n *= 2
    try:
        sequence = core.ddmin(sequence, fails)
    except Exception:   # noqa
        pass
    return sequence


def run_sequence_safe(pid, sequence, case):
    try:
        return run_sequence(pid, sequence, case)
    except Exception:   # noqa
        return None


def fresh_replay(path):
    """Replay in a fresh interpreter; returns True iff the same violation class recurs."""
    env = dict(os.environ)
    env['PYTHONHASHSEED'] = '0'
    p = subprocess.run([sys.executable, '-m', 'simfw.cli', 'replay', path], cwd=VERIF_DIR, env=env,
                       stdout=subprocess.PIPE, stderr=subprocess.STDOUT, timeout=600)
    return p.returncode == 1 and b'REPRODUCED' in p.stdout, p.stdout.decode(errors='replace')


def check(pid, tier, verif_seed, runs=None, workers=None, wall_cap=None, quiet=False):
    mod = load_prop(pid)
    known = load_known()
    t0 = time.time()
    n_runs = runs if runs is not None else mod.RUNS[tier]
    wall_cap = wall_cap if wall_cap is not None else getattr(mod, 'WALL_CAP', {'quick': 75, 'thorough': 1500})[tier]
    workers = workers or int(os.environ.get('VERIF_WORKERS', '0')) or min(16, os.cpu_count() or 4)
    block = getattr(mod, 'BLOCK', BLOCK)
    tasks = []
    for start in range(0, n_runs, block):
        tasks.append((pid, tier, verif_seed, start, min(n_runs, start + block), known))
    rows = []
    errors = []
    truncated = False
    ctx = multiprocessing.get_context('fork')
    core.import_sut()    # import once, before forking
    with concurrent.futures.ProcessPoolExecutor(max_workers=workers, mp_context=ctx) as pool:
        futs = {}
        it = iter(tasks)
        pending = set()

        def submit_more():
            while len(pending) < workers * 2:
                try:
                    tk = next(it)
                except StopIteration:
                    return
                fu = pool.submit(run_task, tk)
                futs[fu] = tk
                pending.add(fu)
        submit_more()
        while pending:
            done, _ = concurrent.futures.wait(pending, timeout=5, return_when=concurrent.futures.FIRST_COMPLETED)
            for fu in done:
                pending.discard(fu)
                try:
                    r = fu.result()
                except Exception as ex:   # noqa   (BrokenProcessPool, ...)
                    errors.append('worker died on task %r: %r' % (futs[fu][3:5], ex))
                    continue
                if not r['ok']:
                    errors.append(r['error'])
                else:
                    rows.extend(r['rows'])
            if errors:
                for fu in pending:
                    fu.cancel()
                break
            if time.time() - t0 > wall_cap:
                truncated = True     # stop handing out work; finish what is running
                it = iter(())
            submit_more()
    rows.sort(key=lambda r: r['index'])
    wall = time.time() - t0
    if errors:
        print('HARNESS-ERROR property=%s' % pid)
        for e in errors[0:3]:
            print(e)
        return 2
    if not rows:
        print('HARNESS-ERROR property=%s no runs completed' % pid)
        return 2

    # ---- classify violations -------------------------------------------------------
    stats = {}
    sigs = set()
    nontrivial = 0
    digests = []
    all_viol = []
    for r in rows:
        merge_stats(stats, r['stats'])
        if r['nontrivial']:
            nontrivial += 1
            sigs.add(r['sig'])
        digests.append(r['digest'])
        for e in r['violations']:
            all_viol.append((r, e))
    known_hits = {}
    new_by_sig = {}
    for r, e in all_viol:
        v = e['violation']
        k = match_known(v, known)
        if k is not None:
            d = known_hits.setdefault(k['id'], {'entry': k, 'count': 0, 'example_seed': r['seed']})
            d['count'] += 1
        else:
            key = (v['kind'], v['signature'])
            if key not in new_by_sig or (e['minimised'] and not new_by_sig[key][1]['minimised']):
                cnt = new_by_sig[key][2] if key in new_by_sig else 0
                new_by_sig[key] = (r, e, cnt)
            rr, ee, cnt = new_by_sig[key]
            new_by_sig[key] = (rr, ee, cnt + 1)
    exit_code = 0
    lines = []
    for kid in sorted(known_hits):
        d = known_hits[kid]
        lines.append('KNOWN-FINDING: property=%s %s [%s; matched %d runs, e.g. seed %d]'
                     % (pid, d['entry']['what'], kid, d['count'], d['example_seed']))
    n_new = 0
    for key in sorted(new_by_sig):
        r, e, cnt = new_by_sig[key]
        case = e['case']
        if case is None:
            case = mod.generate(r['seed'], tier)
        seq = None
        if e.get('sequence') is not None:
            seq = minimise_sequence(pid, e['sequence'], case, e['violation'])
            if seq is None:
                print('HARNESS-ERROR property=%s violation %s (seed %d) reproduced neither on immediate re-run nor '
                      'from its process history' % (pid, e['violation']['signature'], r['seed']))
                return 2
            e['violation']['details']['needs_earlier_runs_in_same_process'] = len(seq)
            e['minimised'] = len(seq) < len(e['sequence'])
        path = write_replay(pid, r['seed'], tier, case, e['violation'], sequence=seq)
        ok, outp = fresh_replay(path)
        if not ok and seq is None:
            # confirmed twice inside its worker, not in a fresh interpreter: the violation may need the state that
            # earlier runs of the same process left behind in the library. Re-create the block's history (generated
            # in a process of its own) and look for the violation at the end of it, in pristine processes.
            start = (r['index'] // block) * block
            gen = in_pristine_child(generate_block, (pid, tier, verif_seed, start, r['index'] + 1, known))
            if gen and gen.get('ok'):
                cases = [c for _, c in gen['cases']]
                for cand in (case, cases[-1]):
                    seq = minimise_sequence(pid, cases[:-1], cand, e['violation'])
                    if seq is not None:
                        e['violation']['details']['needs_earlier_runs_in_same_process'] = len(seq)
                        path = write_replay(pid, r['seed'], tier, cand, e['violation'], sequence=seq)
                        ok, outp = fresh_replay(path)
                        if ok:
                            break
        if not ok:
            print('HARNESS-ERROR property=%s replay of %s did not reproduce in a fresh interpreter' % (pid, path))
            print(outp[-2000:])
            return 2
        n_new += 1
        exit_code = 1
        lines.append('VIOLATION property=%s replay=%s' % (pid, path))
        lines.append('  kind=%s signature=%s runs=%d minimised=%s details=%s'
                     % (e['violation']['kind'], e['violation']['signature'], cnt, e['minimised'],
                        json.dumps(e['violation']['details'])[0:600]))
    # ---- evidence ----------------------------------------------------------------------
    samples = []
    for r in rows:
        if 'sample_case' in r and len(samples) < 3:
            samples.append({'seed': r['seed'], 'index': r['index'], 'case': core.jsonable(r['sample_case'])})
    cov = {
        'evaluations': len(rows),
        'distinct_nontrivial': len(sigs),
        'nontrivial_runs': nontrivial,
        'rule': mod.RULE,
        'samples': samples,
        'runs_requested': n_runs,
        'truncated_by_wall_cap': truncated,
        'runs_per_hour': int(len(rows) / max(wall, 1e-6) * 3600),
        'seeds': {'verif_seed': verif_seed, 'first_run_seed': rows[0]['seed'], 'last_run_seed': rows[-1]['seed']},
        'batch_digest': core.digest(digests),
        'workers': workers,
        'stats': core.jsonable(stats),
        'components': getattr(mod, 'COMPONENTS', {}),
        'known_findings_matched': {kid: known_hits[kid]['count'] for kid in sorted(known_hits)},
        'new_violation_classes': [list(k) for k in sorted(new_by_sig)],
    }
    ev = {
        'property_id': pid, 'tier': tier, 'seed': verif_seed, 'level': 'exploration',
        'coverage': cov, 'assumptions': list(getattr(mod, 'ASSUMPTIONS', [])),
        'wall_s': round(wall, 2), 'violations': n_new,
    }
    os.makedirs(EVIDENCE_DIR, exist_ok=True)
    tmp = os.path.join(EVIDENCE_DIR, pid + '.json.tmp')
    with open(tmp, 'w') as f:
        json.dump(ev, f, indent=1, sort_keys=True)
    os.replace(tmp, os.path.join(EVIDENCE_DIR, pid + '.json'))
    for ln in lines:
        print(ln)
    if not quiet:
        print('property=%s tier=%s seed=%d runs=%d distinct_nontrivial=%d wall=%.1fs runs/h=%d known=%d new=%d%s'
              % (pid, tier, verif_seed, len(rows), len(sigs), wall, cov['runs_per_hour'],
                 sum(d['count'] for d in known_hits.values()), n_new, ' TRUNCATED' if truncated else ''))
    return exit_code


# ---------------------------------------------------------------------------------------
# replay
# ---------------------------------------------------------------------------------------

def replay(path):
    with open(path) as f:
        data = json.load(f)
    mod = load_prop(data['property'])
    core.import_sut()
    if data.get('sequence'):
        res = run_sequence(data['property'], data['sequence'], data['case'])
    else:
        res = execute_guarded(mod, data['case'])
    want = data['violation']
    got = [v for v in res['violations'] if core.same_class(v, want)]
    if got:
        print('REPRODUCED kind=%s signature=%s' % (want['kind'], want['signature']))
        print(json.dumps(got[0]['details'])[0:2000])
        print('VIOLATION property=%s replay=%s' % (data['property'], path))
        return 1
    print('NOT-REPRODUCED: wanted %s/%s, got %s' % (want['kind'], want['signature'],
                                                   [(v['kind'], v['signature']) for v in res['violations']]))
    return 0
