"""
EQN sessions: drive a real sfc_models EquationSolver through one block under seeded knobs
and injected evaluation faults, record what it did, and evaluate the oracles of
C02 / C10 / C11 against the *submitted* block with an independent evaluator.
"""
import math
import warnings

from . import core
from .blockgen import render


# ---------------------------------------------------------------------------------------
# chaos / tick : simulator-owned callables reached through EquationSolver.AddFunction
# ---------------------------------------------------------------------------------------

class SimAbort(Exception):
    """An exception class the solver knows nothing about."""


class Chaos(object):
    """chaos(x) is the identity unless the fault plan says otherwise at this call index.

    faults: list of {"kind": ..., "at": first call index (1-based), "count": consecutive calls}
      eval_zdiv   -> raises ZeroDivisionError
      eval_domain -> raises ValueError('math domain error')
      eval_nan    -> returns nan
      eval_inf    -> returns inf
      eval_overflow_abort -> raises OverflowError
      eval_arith_abort    -> raises ArithmeticError
      eval_sim_abort      -> raises SimAbort
    """

    def __init__(self, faults=()):
        self.calls = 0
        self.faults = [dict(f) for f in faults]
        self.fired = {}
        self.enabled = True

    def __deepcopy__(self, memo):
        # the steady-state search works on a deep copy of the solver: injected faults target the real run only
        c = Chaos(())
        c.enabled = False
        return c

    def __call__(self, x):
        if not self.enabled:
            return x
        self.calls += 1
        n = self.calls
        for f in self.faults:
            if f['at'] <= n < f['at'] + f.get('count', 1):
                kind = f['kind']
                self.fired[kind] = self.fired.get(kind, 0) + 1
                if kind == 'eval_zdiv':
                    raise ZeroDivisionError('float division by zero')
                if kind == 'eval_domain':
                    raise ValueError('math domain error')
                if kind == 'eval_nan':
                    return float('nan')
                if kind == 'eval_inf':
                    return float('inf')
                if kind == 'eval_oscillate':
                    # a value that never settles: the iteration cannot meet any tolerance
                    # (amplitude varies with the call index so that no two consecutive calls can agree)
                    return x + (1.0 if n % 2 else -1.0) * (1.0 + abs(x)) * (1.0 + 0.37 * (n % 5))
                if kind == 'eval_overflow_abort':
                    raise OverflowError('math range error')
                if kind == 'eval_arith_abort':
                    raise ArithmeticError('injected')
                if kind == 'eval_sim_abort':
                    raise SimAbort('injected')
                raise core.HarnessError('unknown chaos fault kind ' + kind)
        return x


class Tick(object):
    """tick(x) is the identity and records, per solver period, how often it was evaluated
    (= number of sweeps when it sits in a simultaneous equation)."""

    def __init__(self):
        self.per_period = {}
        self.period_of = None   # callable returning the current period
        self.enabled = True

    def __deepcopy__(self, memo):
        c = Tick()
        c.enabled = False
        return c

    def __call__(self, x):
        if self.enabled and self.period_of is not None:
            p = self.period_of()
            self.per_period[p] = self.per_period.get(p, 0) + 1
        return x


def eval_namespace():
    ns = {'__builtins__': {}}
    for name in dir(math):
        if not name.startswith('_'):
            ns[name] = getattr(math, name)
    ns.update({'max': max, 'min': min, 'abs': abs, 'pow': pow, 'float': float, 'round': round,
               'sum': sum, 'chaos': (lambda x: x), 'tick': (lambda x: x)})
    return ns


_NS = eval_namespace()


def ev(rhs, env):
    return eval(rhs, _NS, env)


# ---------------------------------------------------------------------------------------
# running one block
# ---------------------------------------------------------------------------------------

DEFAULT_TOL = 1e-8


def tolerance_in_force(block, knobs):
    if knobs.get('tol_param') is not None:
        return float(knobs['tol_param'])
    if block.get('err_tol') is not None:
        return float(block['err_tol'])
    return DEFAULT_TOL


def horizon_of(block, knobs):
    if knobs.get('maxtime_attr') is not None:
        return int(knobs['maxtime_attr'])
    if block.get('maxtime') is not None:
        return int(block['maxtime'])
    return 0


def snapshot(ts):
    return {k: list(v) for k, v in ts.items()}


def run_block(block, knobs, faults=(), drive='mono', text=None):
    """Execute one block against the real solver. Returns a record dict:
       outcome: 'ok' or exception class name; exc_is_valueerror; message
       series: snapshot of TimeSeries at the end (possibly partial)
       snapshots: {period: snapshot after SolveStep(period) returned}  (step drive)
       failed_period, ticks, chaos_calls, fired, parser lists, steady info
    """
    core.import_sut()
    from sfc_models.equation_solver import EquationSolver
    rec = {'outcome': 'ok', 'exc_mro': [], 'message': '', 'snapshots': {}, 'failed_period': None,
           'phase': 'construct'}
    chaos = Chaos(faults)
    tick = Tick()
    if text is None:
        text = render(block)
    rec['text'] = text
    solver = EquationSolver(run_equation_reduction=bool(knobs.get('reduction', True)))
    rec['solver'] = solver
    tick_var = knobs.get('tick_var')

    def period_of():
        if tick_var is not None and tick_var in solver.TimeSeries:
            return len(solver.TimeSeries[tick_var])
        return -1
    tick.period_of = period_of
    try:
        with warnings.catch_warnings():
            warnings.simplefilter('ignore')
            if knobs.get('maxtime_attr') is not None:
                solver.MaxTime = int(knobs['maxtime_attr'])
            solver.AddFunction('chaos', chaos)
            solver.AddFunction('tick', tick)

            def neighbour():
                # another party in the same process: its own solver, its own functions under the same names
                other = EquationSolver()
                other.AddFunction('chaos', lambda x=0.0, *a: -x - 1000.0)
                other.AddFunction('tick', lambda x=0.0, *a: 0.5 * x + 1000.0)
                try:
                    other.ParseString('nz = tick(ny)\nny = 1.0\nMaxTime = 1')
                    other.SolveEquation()
                except Exception:   # noqa
                    pass
            if knobs.get('neighbour') == 'before_parse':
                neighbour()
            if knobs.get('prelude') is not None:
                # the solver has a history: another block was parsed and solved on it before
                rec['phase'] = 'prelude'
                try:
                    solver.ParseString(render(knobs['prelude']))
                    solver.SolveEquation()
                    rec['prelude_outcome'] = 'ok'
                except Exception as ex:   # noqa
                    rec['prelude_outcome'] = type(ex).__name__
                rec['prelude_series'] = snapshot(solver.TimeSeries)
                chaos.calls = 0
                tick.per_period = {}
            if knobs.get('prelude_same') is not None:
                # the very same text was parsed and solved before, under another solver-level horizon
                rec['phase'] = 'prelude'
                try:
                    solver.MaxTime = int(knobs['prelude_same'])
                    solver.ParseString(text)
                    solver.SolveEquation()
                    rec['prelude_outcome'] = 'ok'
                except Exception as ex:   # noqa
                    rec['prelude_outcome'] = type(ex).__name__
                rec['prelude_series'] = snapshot(solver.TimeSeries)
                solver.MaxTime = int(knobs['maxtime_attr']) if knobs.get('maxtime_attr') is not None else None
                chaos.calls = 0
                tick.per_period = {}
            rec['phase'] = 'parse'
            solver.ParseString(text)
            if knobs.get('maxtime_attr_late') is not None:
                # the solver-level horizon is touched after the block was parsed (a front end re-using a settings
                # object): whichever horizon the implementation takes, it must be one horizon for every series
                solver.MaxTime = int(knobs['maxtime_attr_late'])
            if knobs.get('cap') is not None:
                solver.MaxIterations = int(knobs['cap'])
            if knobs.get('tol_param') is not None:
                solver.ParameterErrorTolerance = float(knobs['tol_param'])
            if knobs.get('trace_step') is not None:
                solver.TraceStep = int(knobs['trace_step'])
            st = knobs.get('steady')
            if st:
                solver.ParameterSolveInitialSteadyState = True
                solver.ParameterInitialSteadyStateMaxTime = int(st.get('T', 200))
                solver.ParameterInitialSteadyStateErrorToler = float(st.get('tol', 1e-4))
                if st.get('excluded') is not None:
                    solver.ParameterInitialSteadyStateExcludedVariables = list(st['excluded'])
            rec['parser'] = {
                'endo': [v for v, _ in solver.Parser.Endogenous],
                'deco': [v for v, _ in solver.Parser.Decoration],
                'lag': [v for v, _ in solver.Parser.Lagged],
                'exo': [v for v, _ in solver.Parser.Exogenous],
                'maxtime': solver.Parser.MaxTime,
            }
            if knobs.get('neighbour') == 'after_parse':
                neighbour()
            if drive == 'mono':
                rec['phase'] = 'solve'
                solver.SolveEquation()
            else:
                rec['phase'] = 'init'
                solver.ExtractVariableList()
                solver.SetInitialConditions()
                rec['snapshots'][0] = snapshot(solver.TimeSeries)
                if st:
                    rec['phase'] = 'steady'
                    solver.CalculateInitialSteadyState()
                    rec['snapshots'][0] = snapshot(solver.TimeSeries)
                rec['phase'] = 'solve'
                T = solver.Parser.MaxTime
                for step in range(1, T + 1):
                    rec['failed_period'] = step
                    solver.SolveStep(step)
                    rec['snapshots'][step] = snapshot(solver.TimeSeries)
                rec['failed_period'] = None
    except Exception as ex:   # noqa  - every outcome is data
        rec['outcome'] = type(ex).__name__
        rec['exc_mro'] = [c.__name__ for c in type(ex).__mro__]
        rec['message'] = str(ex)[0:200]
    chaos.enabled = False
    tick.enabled = False
    rec['series'] = snapshot(solver.TimeSeries)
    rec['ticks'] = dict(tick.per_period)
    rec['chaos_calls'] = chaos.calls
    rec['fired'] = dict(chaos.fired)
    if 'parser' not in rec:
        rec['parser'] = None
    if rec['outcome'] != 'ok' and drive == 'mono' and rec['phase'] == 'solve':
        # period that failed = shortest non-exogenous series length
        try:
            ex = set(rec['parser']['exo']) | {'k'}
            lens = [len(v) for kk, v in rec['series'].items() if kk not in ex]
            rec['failed_period'] = min(lens) if lens else None
        except Exception:   # noqa
            rec['failed_period'] = None
    return rec


# ---------------------------------------------------------------------------------------
# independent view of the submitted block
# ---------------------------------------------------------------------------------------

def block_vars(block):
    """Every variable name the submitted block defines (excluding run parameters)."""
    out = []
    for v, _ in block.get('eqs', []):
        out.append(v)
    for v, _, _ in block.get('lags', []):
        out.append(v)
    for v, _ in block.get('exo', []):
        out.append(v)
    return out


def has_user_t(block):
    return any(v in ('t', 't_minus_1') for v in block_vars(block))


def exo_values(block, T):
    """Evaluate exogenous definitions independently. Returns {var: list|float|Exception}."""
    out = {}
    for v, txt in block.get('exo', []):
        try:
            val = eval(txt, dict(_NS), {})
            out[v] = val
        except Exception as ex:   # noqa
            out[v] = ex
    return out


def lipschitz_row(rhs, env, wrt):
    """Sum of |df/dx_j| over variables in wrt, central differences at env."""
    tot = 0.0
    for name in wrt:
        if name not in env:
            continue
        x = env[name]
        if not core.is_finite_number(x):
            continue
        h = 1e-6 * max(1.0, abs(x))
        e1 = dict(env)
        e2 = dict(env)
        e1[name] = x + h
        e2[name] = x - h
        try:
            d = (ev(rhs, e1) - ev(rhs, e2)) / (2 * h)
        except Exception:   # noqa
            continue
        if core.is_finite_number(d):
            tot += abs(d)
    return tot


def same(a, b):
    """Exact equality that also accepts nan == nan (non-finite values are C02's subject)."""
    return a == b or (a != a and b != b)


def names_in(txt):
    import re
    return set(re.findall(r'[A-Za-z_][A-Za-z_0-9]*', txt))


# ---------------------------------------------------------------------------------------
# oracles
# ---------------------------------------------------------------------------------------

def reported_periods(rec, drive):
    """Periods that were reported as solved: all of them on normal return; in step drive also
    those whose SolveStep returned before a later failure."""
    if rec['outcome'] == 'ok':
        lens = [len(v) for v in rec['series'].values()]
        return (min(lens) - 1) if lens else 0
    if drive == 'step' and rec['phase'] == 'solve' and rec['failed_period'] is not None:
        return rec['failed_period'] - 1
    return 0


def check_c02(block, knobs, rec, drive, prop='C02'):
    """Whatever the solver reports satisfies the submitted equations."""
    out = []
    if rec['parser'] is None:
        return out
    if rec['outcome'] != 'ok' and not (drive == 'step' and rec['phase'] == 'solve'):
        return out
    P = reported_periods(rec, drive)
    if rec['outcome'] == 'ok':
        series = rec['series']
    else:
        series = rec['snapshots'].get(P)
        if series is None:
            return out
    tol = tolerance_in_force(block, knobs)
    # 1. finiteness of everything reported
    for var in sorted(series.keys()):
        vals = series[var]
        for kk in range(0, min(len(vals), P + 1)):
            x = vals[kk]
            if not core.is_finite_number(x):
                what = 'nan' if (isinstance(x, float) and x != x) else \
                    ('inf' if isinstance(x, float) else type(x).__name__)
                out.append(core.violation(prop, 'nonfinite-reported', 'nonfinite-reported:' + what,
                                          var=var, k=kk, value=x, outcome=rec['outcome']))
                return out
    deco = set(rec['parser']['deco'])
    lagv = {l: s for l, s, _ in block.get('lags', [])}
    exo = set(v for v, _ in block.get('exo', []))
    simvars = [v for v, _ in block.get('eqs', []) if v not in exo]
    allv = block_vars(block)
    for var in allv:
        if var not in series:
            out.append(core.violation(prop, 'variable-missing', 'variable-missing', var=var))
            return out
    exov = exo_values(block, P)
    for kk in range(1, P + 1):
        env = {}
        for var, vals in series.items():
            if len(vals) > kk:
                env[var] = vals[kk]
        env['k'] = series['k'][kk] if 'k' in series and len(series['k']) > kk else float(kk)
        scale = max([1.0] + [abs(x) for x in env.values() if core.is_finite_number(x)])
        # lagged: exact
        for lv, src in lagv.items():
            if not same(series[lv][kk], series[src][kk - 1]):
                out.append(core.violation(prop, 'lag-mismatch', 'lag-mismatch', var=lv, k=kk,
                                          got=series[lv][kk], want=series[src][kk - 1]))
                return out
        # exogenous: exact
        for xv in exo:
            val = exov.get(xv)
            if isinstance(val, Exception):
                continue
            want = val if isinstance(val, float) else (list(val)[kk] if kk < len(list(val)) else None)
            if want is None or series[xv][kk] != want:
                out.append(core.violation(prop, 'exogenous-mismatch', 'exogenous-mismatch', var=xv, k=kk,
                                          got=series[xv][kk], want=want))
                return out
        # equations
        for var, rhs in block.get('eqs', []):
            if var in exo:
                continue
            try:
                f = ev(rhs, env)
            except Exception as ex:   # noqa
                out.append(core.violation(prop, 'equation-undefined-at-reported-values',
                                          'equation-undefined:' + type(ex).__name__,
                                          var=var, k=kk, rhs=rhs, error=str(ex)))
                return out
            got = env[var]
            if var in deco:
                if not (f == got or core.close(f, got, rel=4e-16)):
                    out.append(core.violation(prop, 'decorative-not-exact', 'decorative-not-exact',
                                              var=var, k=kk, rhs=rhs, got=got, want=f))
                    return out
            else:
                L = lipschitz_row(rhs, env, [n for n in names_in(rhs) if n not in lagv and n not in exo])
                bound = (1.0 + L) * tol * scale * 4.0 + 1e-13 * scale
                if not (abs(got - f) <= bound):
                    out.append(core.violation(prop, 'residual-exceeds-tolerance', 'residual-exceeds-tolerance',
                                              var=var, k=kk, rhs=rhs, got=got, f_at_reported=f,
                                              residual=abs(got - f), bound=bound, tol=tol, L=L))
                    return out
    return out


def check_c10(block, knobs, rec, drive, prop='C10', misuse=None):
    """Exogenous paths, initial conditions and horizon honoured verbatim."""
    out = []
    T = horizon_of(block, knobs)
    late = knobs.get('maxtime_attr_late')
    if late is not None and rec['outcome'] == 'ok' and rec['series'] and \
            all(len(v) == int(late) + 1 for v in rec['series'].values()):
        T = int(late)       # a consistent run over the horizon set last is as good as one over the parsed horizon
    if misuse:
        # the run must have been rejected, and no numbers exist
        if rec['outcome'] == 'ok':
            out.append(core.violation(prop, 'misuse-accepted', 'misuse-accepted:' + misuse,
                                      misuse=misuse))
            return out
        nonempty = [k for k, v in rec['series'].items() if len(v) > 0]
        if rec.get('prelude_series') is not None:
            # a reused solver may still hold the previous block's results, untouched; nothing of the rejected block
            if core.canon_json(rec['series']) == core.canon_json(rec['prelude_series']):
                nonempty = []
        if nonempty:
            out.append(core.violation(prop, 'misuse-left-numbers', 'misuse-left-numbers:' + misuse,
                                      misuse=misuse, series=sorted(nonempty)[0:5]))
        return out
    if rec['outcome'] != 'ok':
        return out
    series = rec['series']
    want_keys = set(block_vars(block)) | {'k'}
    if not has_user_t(block):
        want_keys.add('t')
    got_keys = set(series.keys())
    if want_keys != got_keys:
        out.append(core.violation(prop, 'key-set-mismatch', 'key-set-mismatch',
                                  missing=sorted(want_keys - got_keys), extra=sorted(got_keys - want_keys)))
        return out
    for var in sorted(series.keys()):
        if len(series[var]) != T + 1:
            out.append(core.violation(prop, 'length-mismatch', 'length-mismatch', var=var,
                                      got=len(series[var]), want=T + 1))
            return out
    exov = exo_values(block, T)
    for xv, val in exov.items():
        if isinstance(val, Exception):
            continue
        want = [val] * (T + 1) if isinstance(val, float) else list(val)[0:T + 1]
        if series[xv] != want or any(type(a) is not type(b) for a, b in zip(series[xv], want)):
            out.append(core.violation(prop, 'exogenous-not-verbatim', 'exogenous-not-verbatim', var=xv,
                                      got=series[xv], want=want))
            return out
    exo = set(v for v, _ in block.get('exo', []))
    for var, txt in block.get('ics', []):
        if var in exo:
            continue
        want = float(eval(txt, dict(_NS), {}))
        if series[var][0] != want:
            out.append(core.violation(prop, 'initial-condition-not-honoured',
                                      'initial-condition-not-honoured', var=var, got=series[var][0], want=want))
            return out
    for lv, src, _ in block.get('lags', []):
        for kk in range(1, T + 1):
            if not same(series[lv][kk], series[src][kk - 1]):
                out.append(core.violation(prop, 'lag-mismatch', 'lag-mismatch', var=lv, k=kk,
                                          got=series[lv][kk], want=series[src][kk - 1]))
                return out
    if series['k'] != [float(i) for i in range(T + 1)]:
        out.append(core.violation(prop, 'k-axis-wrong', 'k-axis-wrong', got=series['k']))
        return out
    if not has_user_t(block):
        # k=0 of 't' is the (default zero) initial value, periods k>=1 follow t = k
        if series['t'][1:] != [float(i) for i in range(1, T + 1)]:
            out.append(core.violation(prop, 't-axis-wrong', 't-axis-wrong', got=series['t']))
            return out
    return out


def check_c11_failure(block, knobs, rec, drive, prop='C11', cap=None, expect_valueerror=True):
    """On failure during the solve phase: error class, sweep bound, prefix intact & rectangular."""
    out = []
    if rec['outcome'] == 'ok' or rec['phase'] != 'solve' or rec['parser'] is None:
        return out
    exo = set(rec['parser']['exo']) | {'k'}
    series = rec['series']
    if expect_valueerror and 'ValueError' not in rec['exc_mro']:
        out.append(core.violation(prop, 'wrong-error-class', 'wrong-error-class:' + rec['outcome'],
                                  outcome=rec['outcome'], message=rec['message']))
        return out
    p = rec['failed_period']
    if cap is not None and p is not None and p in rec['ticks']:
        if rec['ticks'][p] > cap + 1:
            out.append(core.violation(prop, 'sweep-bound-exceeded', 'sweep-bound-exceeded',
                                      sweeps=rec['ticks'][p], cap=cap, period=p))
            return out
    lens = {v: len(s) for v, s in series.items() if v not in exo}
    if lens and len(set(lens.values())) != 1:
        short = min(lens.values())
        longer = sorted(v for v, n in lens.items() if n != short)
        out.append(core.violation(prop, 'ragged-after-failure', 'ragged-after-failure:' + rec['outcome'],
                                  outcome=rec['outcome'], lengths={v: lens[v] for v in sorted(lens)[0:12]},
                                  longer=longer[0:6], message=rec['message']))
        return out
    if drive == 'step' and p is not None:
        before = rec['snapshots'].get(p - 1)
        if before is not None:
            for v in sorted(before.keys()):
                if v in exo:
                    if series.get(v) != before[v]:
                        out.append(core.violation(prop, 'exogenous-changed-by-failure',
                                                  'exogenous-changed-by-failure', var=v))
                        return out
                    continue
                if series.get(v) != before[v]:
                    out.append(core.violation(prop, 'prefix-not-intact', 'prefix-not-intact', var=v,
                                              before=before[v], after=series.get(v), period=p))
                    return out
    return out


def series_digest(rec):
    return core.digest({'o': rec['outcome'], 'm': rec['message'], 's': rec['series'], 't': rec['ticks']})
