"""
Case generation and execution for the EQN-family properties (C02, C10, C11).

A case is explicit JSON:
  {"kind": "EQN", "profile": str, "block": {...}, "knobs": {...}, "drive": "mono"|"step",
   "faults": [{"kind","at","count"}], "expect": {...oracle hints fixed at generation time...}}
"""
from . import core
from . import eqn
from .blockgen import gen_block, block_signature, gen_exo_text, fl

TOLS = [1e-3, 1e-4, 1e-6, 1e-8, 1e-10, 1e-12]


def pick_knobs(rng, T, allow_trace=True, tol_lo=None):
    knobs = {'reduction': rng.random() < 0.6, 'tol_param': None, 'cap': None, 'trace_step': None,
             'maxtime_attr': None, 'tick_var': None}
    r = rng.random()
    tols = [t for t in TOLS if tol_lo is None or t >= tol_lo]
    if r < 0.45:
        knobs['tol_param'] = rng.choice(tols)
    tol_text = None
    if rng.random() < 0.45:
        tol_text = rng.choice(['1e-3', '1e-4', '1e-6', '.001', '1e-8', '1e-10'])
        if tol_lo is not None and float(tol_text) < tol_lo:
            tol_text = '1e-6'
    if rng.random() < 0.3:
        knobs['cap'] = rng.choice([50, 100, 400, 1000, 2000])
    if allow_trace and T >= 1 and rng.random() < 0.2:
        knobs['trace_step'] = rng.randint(1, T)
    return knobs, tol_text


def wrap_function(block, rng, fn, prefer_cycle=True, target=None):
    """Wrap the right-hand side of one equation in fn(...). Returns the variable chosen."""
    eqs = block['eqs']
    cands = list(range(len(eqs)))
    if target is not None:
        cands = [i for i in cands if eqs[i][0] == target]
    elif prefer_cycle:
        cyc = [i for i in cands if eqs[i][0] in eqn.names_in(eqs[i][1])]
        if cyc:
            cands = cyc
    if not cands:
        return None
    i = cands[rng.randrange(len(cands))]
    eqs[i][1] = '%s(%s)' % (fn, eqs[i][1])
    return eqs[i][0]


def ensure_cycle_var(block, rng):
    """Make sure there is a variable that references itself (stays simultaneous under
    reduction) and return it; used to host tick()."""
    for v, rhs in block['eqs']:
        if v in eqn.names_in(rhs):
            return v
    v = 'xs'
    block['eqs'].append([v, '0.5*xs + 1.0'])
    return v


HAZARDS = ['overflow_sq', 'overflow_lin', 'zdiv_transient', 'zdiv_persistent', 'domain_transient',
           'domain_persistent', 'nan_natural', 'overflow_coupled', 'oscillate', 'exp_overflow']


def add_hazard(block, rng, kind):
    """Append a small natural-fault subsystem to a block (names hz*)."""
    e = block['eqs']
    ics = block['ics']
    if kind == 'overflow_sq':
        e.append(['hz0', 'hz0*hz0 + %s' % repr(fl(rng, 0.5, 3.0, 1))])
        ics.append(['hz0', repr(fl(rng, 2.0, 5.0, 1))])
    elif kind == 'overflow_lin':
        e.append(['hz0', '%s*hz0 + 1.0' % repr(rng.choice([3.0, 8.0, 50.0, 1e6]))])
        ics.append(['hz0', '1.0'])
    elif kind == 'overflow_coupled':
        e.append(['hz0', 'hz0*hz0 + 1.0'])
        e.append(['hz1', '0.5*hz1 + 1.0/(1.0 + hz0*hz0) + 1.0'])
        ics.append(['hz0', '2.0'])
    elif kind == 'zdiv_transient':
        # first sweep divides by zero (initial guess 0), afterwards fine
        e.append(['hz0', '0.5*hz0 + 1.0'])
        e.append(['hz1', '1.0/hz0 + 0.2*hz1'])
    elif kind == 'zdiv_persistent':
        e.append(['hz0', '0.0*hz1'])
        e.append(['hz1', '1.0/hz0 + 0.2*hz1'])
    elif kind == 'domain_transient':
        e.append(['hz0', '0.5*hz0 + 2.0'])
        e.append(['hz1', 'log(hz0) + 0.1*hz1'])
    elif kind == 'domain_persistent':
        e.append(['hz0', '0.5*hz0 - 2.0'])
        e.append(['hz1', 'sqrt(hz0) + 0.1*hz1'])
    elif kind == 'nan_natural':
        e.append(['hz0', '1e308*hz0 + 1e308'])
        e.append(['hz1', 'hz0 - hz0 + 0.5*hz1'])
        ics.append(['hz0', '1.0'])
    elif kind == 'oscillate':
        e.append(['hz0', '%s*hz0 + 1.0' % repr(-rng.choice([0.9, 1.0, 1.5, 3.0, 10.0]))])
        ics.append(['hz0', repr(fl(rng, -3, 3, 1))])
    elif kind == 'exp_overflow':
        e.append(['hz0', 'exp(hz0)'])
    else:
        raise core.HarnessError('unknown hazard ' + kind)


CHAOS_KINDS = ['eval_zdiv', 'eval_domain', 'eval_nan', 'eval_inf', 'eval_oscillate',
               'eval_overflow_abort', 'eval_arith_abort', 'eval_sim_abort']


class _CountingChaos(eqn.Chaos):
    pass


def place_faults(block, knobs, drive, rng, kinds, n_faults=1):
    """Dry pass (fault free) to learn how many chaos() evaluations happen and where periods
    begin; then draw explicit fault positions inside that range."""
    rec = eqn.run_block(block, knobs, faults=(), drive=drive)
    calls = rec['chaos_calls']
    if calls <= 0:
        return [], rec
    faults = []
    ticks = rec['ticks']
    cap = knobs.get('cap') or 400
    for _ in range(n_faults):
        kind = rng.choice(kinds)
        r = rng.random()
        if r < 0.35:
            at = rng.randint(1, calls)
        elif r < 0.7 and ticks:
            # biased to the start of a period: cumulative sweeps before period p, plus 1..3
            periods = sorted(p for p in ticks if p >= 1)
            p = periods[rng.randrange(len(periods))]
            before = sum(ticks[q] for q in periods if q < p)
            at = min(calls, before + rng.randint(1, 3)) if knobs.get('tick_var') else rng.randint(1, calls)
        else:
            at = max(1, calls - rng.randint(0, 5))
        if kind in ('eval_zdiv', 'eval_domain'):
            count = rng.choice([1, 1, 2, 5, cap + 5, 10 ** 9])
        elif kind in ('eval_nan', 'eval_inf'):
            count = rng.choice([1, 1, 3, 10 ** 9])
        elif kind == 'eval_oscillate':
            count = rng.choice([3, 8, cap + 5, 10 ** 9])
        else:
            count = 1
        faults.append({'kind': kind, 'at': at, 'count': count})
    return faults, rec


def gen_case(seed, profile_weights, tier, tol_lo=None):
    """Generate one EQN case according to a swarm profile drawn from profile_weights."""
    S = core.Streams(seed)
    rng = S['topology']
    profiles = [p for p, w in profile_weights for _ in range(w)]
    profile = profiles[S['swarm'].randrange(len(profiles))]
    T = S['knobs'].randint(1, 12 if tier == 'thorough' else 8)     # the thorough tier also goes deeper in time
    case = {'kind': 'EQN', 'profile': profile, 'drive': S['knobs'].choice(['mono', 'step', 'step']),
            'faults': [], 'expect': {}}
    knobs, tol_text = pick_knobs(S['knobs'], T, tol_lo=tol_lo)
    if profile in ('contractive', 'contractive_plain'):
        block, meta = gen_block(rng, 'contractive', T=T, rich=(profile == 'contractive'), tol_text=tol_text)
    elif profile == 'mixed':
        block, meta = gen_block(rng, 'mixed', T=T, tol_text=tol_text)
    elif profile == 'expansive':
        block, meta = gen_block(rng, 'expansive', T=T, n=rng.randint(1, 4), tol_text=tol_text)
    elif profile == 'hazard':
        block, meta = gen_block(rng, 'contractive', T=T, n=rng.randint(1, 4), tol_text=tol_text)
        hz = S['faults'].choice(HAZARDS)
        add_hazard(block, S['faults'], hz)
        case['expect']['hazard'] = hz
    elif profile == 'chaos':
        block, meta = gen_block(rng, 'contractive', T=T, n=rng.randint(1, 5), tol_text=tol_text)
    elif profile == 'econ_text':
        eb = econ_block(seed)
        if eb is None:
            block, meta = gen_block(rng, 'contractive', T=T, tol_text=tol_text)
        else:
            block, fam = eb
            meta = {'q': None, 'n': len(block['eqs']), 'nonlinear': True}
            case['expect']['econ_family'] = fam
            knobs['cap'] = 2000
    elif profile == 'cap_small':
        block, meta = gen_block(rng, rng.choice(['contractive', 'mixed']), T=T, tol_text=tol_text)
        knobs['cap'] = S['faults'].randint(0, 5)
    else:
        raise core.HarnessError('unknown profile ' + profile)
    # host tick() on a self-referencing variable so sweeps per period can be counted
    if (S['knobs'].random() < 0.7 or profile in ('cap_small',)) and profile != 'econ_text':
        tv = ensure_cycle_var(block, rng)
        wrap_function(block, rng, 'tick', target=tv)
        knobs['tick_var'] = tv
    case['block'] = block
    case['knobs'] = knobs
    case['meta'] = {'q': meta['q'], 'n': meta['n'], 'nonlinear': meta['nonlinear']}
    if S['swarm'].random() < 0.15 and profile in ('contractive', 'contractive_plain', 'mixed', 'hazard', 'cap_small'):
        # solver reuse: a different block (other variable names, other tolerance line) was solved on it before
        pre, _m = gen_block(S['prelude'], 'contractive', T=S['prelude'].randint(1, 3), n=S['prelude'].randint(1, 3),
                            rich=False, allow_user_t=False, tol_text=S['prelude'].choice(['1e-2', '1e-3', '.01', None]))
        import re
        ren = {v: 'pre_' + v for v in eqn.block_vars(pre)}

        def rn(txt):
            return re.sub(r'[A-Za-z_][A-Za-z_0-9]*', lambda m: ren.get(m.group(0), m.group(0)), txt)
        pre = {'eqs': [[ren[v], rn(r_)] for v, r_ in pre['eqs']], 'lags': [[ren[l], ren[s_], st] for l, s_, st in pre['lags']],
               'ics': [[ren[v], t_] for v, t_ in pre['ics']], 'exo': [[ren[v], t_] for v, t_ in pre['exo']],
               'maxtime': pre['maxtime'], 'err_tol': pre['err_tol']}
        knobs['prelude'] = pre
    if profile in ('contractive', 'contractive_plain') and S['swarm'].random() < 0.08:
        # the optional initial steady-state search runs before period 1 (k=0 values come from it)
        knobs['steady'] = {'T': S['swarm'].choice([10, 30]), 'tol': 1e-3, 'excluded': ['t']}
    if knobs.get('prelude') is not None and S['swarm'].random() < 0.4:
        # the previous block used the SAME variable names with other right-hand sides
        import re as _re
        pre = knobs['prelude']
        unren = lambda t_: _re.sub(r'pre_', '', t_)
        names_now = set(eqn.block_vars(block))
        cand = {'eqs': [[unren(v), unren(r_)] for v, r_ in pre['eqs']], 'lags': [[unren(l), unren(s_), st] for l, s_, st in pre['lags']],
                'ics': [[unren(v), t_] for v, t_ in pre['ics']], 'exo': [[unren(v), t_] for v, t_ in pre['exo']],
                'maxtime': pre['maxtime'], 'err_tol': pre['err_tol']}
        if set(eqn.block_vars(cand)) & names_now:
            knobs['prelude'] = cand
    if S['swarm'].random() < 0.1:
        knobs['neighbour'] = S['swarm'].choice(['before_parse', 'after_parse'])
    if profile == 'chaos':
        where = S['faults'].random()
        kinds = list(CHAOS_KINDS)
        if where < 0.6:
            wrapped = wrap_function(block, S['faults'], 'chaos', prefer_cycle=True)
            if wrapped is None or wrapped not in eqn.names_in([r_ for v_, r_ in block['eqs'] if v_ == wrapped][0]):
                kinds.remove('eval_oscillate')
        else:
            # in a decorative-looking equation (nothing depends on it): evaluated once per period, so a wrong
            # *value* (as opposed to an error or a non-finite value) cannot be noticed by any solver
            block['eqs'].append(['dz', 'chaos(2.0*%s + 1.0)' % block['eqs'][0][0]])
            kinds.remove('eval_oscillate')
        faults, _ = place_faults(block, knobs, case['drive'], S['faults'], kinds,
                                 n_faults=S['faults'].choice([1, 1, 2]))
        case['faults'] = faults
    if profile in ('contractive', 'contractive_plain', 'mixed') and knobs.get('prelude') is None \
            and S['swarm'].random() < 0.08:
        nest_names(case, S['swarm'])
    return case


def nest_names(case, rng):
    """Rename two variables so that one name contains the other and ends like a lag marker does (M / M1, r / rk,
    x2 / x21): names are whole tokens, whatever characters they end in. The longer name goes to a lag source."""
    import re
    block = case['block']
    sources = [s_ for _, s_, _ in block['lags'] if s_ != 't']
    others = [v for v, _ in block['eqs'] if v not in sources and v != 't']
    if not sources or not others:
        return
    a = sources[rng.randrange(len(sources))]
    b = others[rng.randrange(len(others))]
    short, long_ = rng.choice([('M', 'M1'), ('r', 'rk'), ('x2', 'x21'), ('stoc', 'stock'), ('c', 'c0'), ('W', 'W0')])
    have = set(eqn.block_vars(block))
    if {short, long_, 'LAG_' + short, 'LAG_' + long_} & have:
        return
    ren = {a: long_, b: short, 'LAG_' + a: 'LAG_' + long_, 'LAG_' + b: 'LAG_' + short}

    def rn(txt):
        return re.sub(r'[A-Za-z_][A-Za-z_0-9]*', lambda m: ren.get(m.group(0), m.group(0)), txt)
    block['eqs'] = [[rn(v), rn(r_)] for v, r_ in block['eqs']]
    block['lags'] = [[rn(l), rn(s_), st] for l, s_, st in block['lags']]
    block['ics'] = [[rn(v), t_] for v, t_ in block['ics']]
    block['exo'] = [[rn(v), t_] for v, t_ in block['exo']]
    if case['knobs'].get('tick_var') is not None:
        case['knobs']['tick_var'] = ren.get(case['knobs']['tick_var'], case['knobs']['tick_var'])
    st = case['knobs'].get('steady')
    if st and st.get('excluded'):
        st['excluded'] = [ren.get(x, x) for x in st['excluded']]
    case.setdefault('expect', {})['nested_names'] = [short, long_]


def econ_block(seed, tight=False):
    """A block parsed (with the harness's own parser) from the final equation text that the real library emits for a
    seeded ECON program: realistic systems of 30-120 equations with alias chains, lags, exogenous lists."""
    from . import econ, econgen
    ops, info = econgen.gen_program(seed, tight=tight, T=None)
    ops = [o for o in ops if o['op'] != 'main' and not (o['op'] == 'SetAttr' and o.get('solver'))]
    sess = econ.run_program(ops)
    m = sess.H[info['model']]
    import contextlib
    import io
    try:
        with contextlib.redirect_stdout(io.StringIO()):
            m._GenerateFullSectorCodes()
            m._GenerateEquations()
            m._FixAliases()
            m._GenerateRegisteredCashFlows()
            m._ProcessExogenous()
            text = m._CreateFinalEquations()
    except Exception:   # noqa
        return None
    p = econ.parse_final(text)
    T = min(p['maxtime'] or 3, 4)
    return {'eqs': [[l, r] for l, r in p['eqs']], 'lags': [[l, s_, 'k'] for l, s_ in p['lags']],
            'ics': [[v, t_] for v, t_ in p['ics']], 'exo': [[l, r] for l, r in p['exo']],
            'maxtime': T, 'err_tol': p['err_tol']}, info['family']


def list_paths(case):
    return [('faults',), ('block', 'eqs'), ('block', 'lags'), ('block', 'ics'), ('block', 'exo')]


def simplify_knobs(case):
    """Candidate simplifications: default knobs, shorter horizon, mono drive."""
    kn = case['knobs']
    if case['block'].get('maxtime') and case['block']['maxtime'] > 1:
        c = core.deep_copy(case)
        c['block']['maxtime'] = max(1, case['block']['maxtime'] // 2)
        yield c
        c = core.deep_copy(case)
        c['block']['maxtime'] = case['block']['maxtime'] - 1
        yield c
    for key in ('trace_step', 'cap', 'tol_param', 'maxtime_attr', 'prelude', 'neighbour', 'maxtime_attr_late'):
        if kn.get(key) is not None:
            c = core.deep_copy(case)
            c['knobs'][key] = None
            yield c
    if case['block'].get('err_tol') is not None:
        c = core.deep_copy(case)
        c['block']['err_tol'] = None
        yield c
    if not kn.get('reduction', True):
        c = core.deep_copy(case)
        c['knobs']['reduction'] = True
        yield c
    if case.get('drive') == 'step':
        c = core.deep_copy(case)
        c['drive'] = 'mono'
        yield c
    for i, f in enumerate(case.get('faults', [])):
        if f.get('count', 1) > 1:
            c = core.deep_copy(case)
            c['faults'][i]['count'] = 1
            yield c
        if f.get('at', 1) > 1:
            c = core.deep_copy(case)
            c['faults'][i]['at'] = max(1, f['at'] // 2)
            yield c


def simplify_rhs(case):
    """Strip function wrappers (tick/chaos) and drop terms from right-hand sides."""
    import re
    for i, (v, rhs) in enumerate(case['block']['eqs']):
        for fn in ('tick', 'chaos'):
            m = re.fullmatch(fn + r'\((.*)\)', rhs)
            if m:
                c = core.deep_copy(case)
                c['block']['eqs'][i][1] = m.group(1)
                if fn == 'tick':
                    c['knobs']['tick_var'] = None
                yield c
        parts = re.split(r' (?=[+-] )', rhs)
        if len(parts) > 1 and '(' not in rhs:
            for j in range(len(parts)):
                rest = parts[0:j] + parts[j + 1:]
                txt = ' '.join(rest).strip()
                if txt.startswith('+ '):
                    txt = txt[2:]
                elif txt.startswith('- '):
                    txt = '-' + txt[2:]
                c = core.deep_copy(case)
                c['block']['eqs'][i][1] = txt
                yield c


simplifiers = (simplify_knobs, simplify_rhs)


def valid(case):
    """A shrunk case must stay a well-formed block: every name used is defined (or is a
    function / the time index), no variable defined twice, tick_var still defined."""
    b = case['block']
    defined = [v for v, _ in b.get('eqs', [])] + [l for l, _, _ in b.get('lags', [])] + \
              [v for v, _ in b.get('exo', [])]
    if len(set(defined)) != len(defined):
        return False
    ok = set(defined) | set(eqn._NS.keys()) | {'k', 't'}
    for v, rhs in b.get('eqs', []):
        if not eqn.names_in(rhs) <= ok | {'e'}:
            return False
    for l, src, _ in b.get('lags', []):
        if src not in defined:
            return False
    for v, _ in b.get('ics', []):
        if v not in defined:
            return False
    tv = case['knobs'].get('tick_var')
    if tv is not None and tv not in defined:
        return False
    return True


def base_stats(case, rec):
    st = {'runs': 1, 'outcome': {rec['outcome']: 1}, 'profile': {case.get('profile', '?'): 1},
          'drive': {case.get('drive', '?'): 1},
          'periods_solved': eqn.reported_periods(rec, case.get('drive')),
          'sweeps_counted': sum(rec['ticks'].values()) if rec['ticks'] else 0,
          'chaos_calls': rec['chaos_calls'], 'faults_fired': dict(rec['fired']),
          'reduction_on': 1 if case['knobs'].get('reduction', True) else 0,
          'solver_reused': 1 if case['knobs'].get('prelude') is not None else 0,
          'neighbour_solver_in_process': 1 if case['knobs'].get('neighbour') else 0}
    probes = {}
    if rec['ticks'] and max(rec['ticks'].values()) > 11:
        probes['half_step_damping_reached'] = 1
    if rec['fired'] and rec['outcome'] == 'ok':
        probes['tolerated_fault_then_success'] = 1
    if rec['parser'] and rec['parser']['deco']:
        probes['has_decorative'] = 1
    if case['knobs'].get('trace_step') is not None:
        probes['traced'] = 1
    st['probes'] = probes
    return st


def case_sig(case, rec):
    return core.digest([block_signature(case['block']), case['drive'],
                        sorted(rec['fired'].items()), case['knobs'].get('reduction'),
                        case['knobs'].get('cap'), rec['outcome']])
