"""
Reference model of what an ECON program *declares*: built from the op list alone (never from
library objects), it says which countries share a currency, what each sector's full code is,
who demands from / supplies to which market, who is taxed by whom, which interest, dividend,
remittance, registered and gold flows exist -- i.e. the double-entry ledger the solved
trajectory is checked against (C01, C04, C07).
"""
from . import core

HOUSEHOLDS = ('Household', 'HouseholdWithExpectations', 'Capitalists')
GOVS = ('ConsolidatedGovernment', 'GoldStandardGovernment', 'Treasury')
NO_F = ('Market', 'TaxFlow', 'MoneyMarket', 'DepositMarket')


class Decl(object):
    def __init__(self):
        self.models = {}      # handle -> {'countries': [handles], 'external': handle|None}
        self.countries = {}   # handle -> {'model','code','currency'}
        self.sectors = {}     # handle -> dict(cls, code, country, hasF, op, vars:set, demands:[codes], ...)
        self.order = []       # sector handles in declaration order
        self.suppliers = {}   # market handle -> [(supplier handle, eqn or None)]
        self.registered = []  # (model, source, target, var, inc_src, inc_dst)
        self.exogenous = []   # (sector handle, var, value, as_tuple)
        self.ics = []
        self.globals = []
        self.gold_manual = [] # (sector handle, flow variable) booked with SetGoldPurchases at construction time
        self.exclusions = []  # (sector handle, flow name) declared with Model.AddCashFlowIncomeExclusion
        self.unsupported = [] # reasons why the ledger cannot be fully trusted for this program


def declare(ops):
    d = Decl()
    default_currency = {}
    made = set()          # handles that exist when an op is issued (an op on a missing handle is a no-op)
    for op in ops:
        name = op['op']
        _id = op.get('id')
        if _id is not None:
            made_now = _id
        else:
            made_now = None
        if name == 'SetGoldPurchases' and op.get('gold') not in made:
            continue
        if name == 'Model':
            d.models[op['id']] = {'countries': [], 'external': None}
            default_currency[op['id']] = 'LOCAL'
        elif name in ('Country', 'Region'):
            if op['model'] not in d.models:
                continue
            cur = op.get('currency')
            if cur is None:
                cur = op['code'] if name == 'Country' else default_currency[op['model']]
            d.countries[op['id']] = {'model': op['model'], 'code': op['code'], 'currency': cur}
            d.models[op['model']]['countries'].append(op['id'])
            default_currency[op['model']] = cur
        elif name == 'ExternalSector':
            if op['model'] not in d.models:
                continue
            d.countries[op['id']] = {'model': op['model'], 'code': 'EXT', 'currency': 'NUMERAIRE'}
            d.models[op['model']]['countries'].append(op['id'])
            d.models[op['model']]['external'] = op['id']
            default_currency[op['model']] = 'NUMERAIRE'
        elif name == 'Builder':
            d.unsupported.append('Builder')
        elif name in ('FixedMarginBusinessSub', 'ConsolidatedGovernment', 'GoldStandardGovernment', 'Treasury', 'CentralBank',
                      'GoldStandardCentralBank', 'Household', 'HouseholdWithExpectations', 'Capitalists',
                      'FixedMarginBusiness', 'FixedMarginBusinessMultiOutput', 'TaxFlow', 'Market', 'MoneyMarket',
                      'DepositMarket', 'Sector'):
            if op['country'] not in d.countries:
                continue
            code = op.get('code')
            if code is None:
                code = 'MON' if name == 'MoneyMarket' else 'DEP'
            s = {'cls': name, 'code': code, 'country': op['country'], 'op': op,
                 'hasF': (name not in NO_F) and op.get('has_F', True),
                 'demands': [], 'user_vars': set(), 'taxable': name in HOUSEHOLDS, 'supplies_markets': []}
            if name in ('Household', 'HouseholdWithExpectations'):
                s['demands'].append(op.get('good') or 'GOOD')
                s['labour'] = op.get('labour') or 'LAB'
            elif name == 'Capitalists':
                s['demands'].append(op.get('good') or 'GOOD')
            elif name in GOVS:
                s['demands'].append('GOOD')
            elif name in ('FixedMarginBusiness', 'FixedMarginBusinessSub'):
                s['cls'] = 'FixedMarginBusiness'
                s['demands'].append(op.get('labour') or 'LAB')
                s['output'] = op.get('output') or 'GOOD'
            elif name == 'FixedMarginBusinessMultiOutput':
                s['demands'].append(op.get('labour') or 'LAB')
                s['supplies_markets'] = list(op.get('markets', []))
            d.sectors[op['id']] = s
            d.order.append(op['id'])
        elif name == 'AddVariable':
            if op['sector'] in d.sectors:
                d.sectors[op['sector']]['user_vars'].add(op['name'])
                if op['name'].startswith('DEM_'):
                    d.sectors[op['sector']]['demands'].append(op['name'][4:])
        elif name == 'AssetWeighting':
            if op['sector'] in d.sectors:
                s = d.sectors[op['sector']]
                for c, _ in op['weights']:
                    s['user_vars'].add('DEM_' + c)
                    s['demands'].append(c)
                s['user_vars'].add('DEM_' + op['residual'])
                s['demands'].append(op['residual'])
                s['weighting'] = {'assets': [c for c, _ in op['weights']] + [op['residual']]}
        elif name == 'AddSupplier':
            if op['market'] in d.sectors and op['supplier'] in d.sectors:
                d.suppliers.setdefault(op['market'], []).append((op['supplier'], op.get('eqn') or None))
        elif name == 'AddMarket':
            if op['business'] in d.sectors and op['market'] in d.sectors:
                d.sectors[op['business']]['supplies_markets'].append(op['market'])
        elif name == 'RegisterCashFlow':
            if op['source'] in d.sectors and op['target'] in d.sectors:
                d.registered.append((op['model'], op['source'], op['target'], op['var'],
                                     op.get('inc_src', True), op.get('inc_dst', True)))
        elif name == 'SetGoldPurchases':
            if op['sector'] in d.sectors:
                d.gold_manual.append((op['sector'], op['var']))
        elif name == 'Exclude':
            if op['sector'] in d.sectors:
                d.exclusions.append((op['sector'], op['name']))
        elif name == 'AddCashFlow':
            d.unsupported.append('AddCashFlow')
        elif name == 'SetExogenous':
            d.exogenous.append((op['sector'], op['var'], op['value'], op.get('as_tuple', False)))
        elif name == 'AddInitialCondition':
            d.ics.append(op)
        elif name == 'AddGlobalEquation':
            d.globals.append(op)
        if made_now is not None:
            made.add(made_now)
    return d


# ---- derived structure ---------------------------------------------------------------

def model_countries(d, mh):
    return d.models[mh]['countries']


def full_code(d, sh):
    s = d.sectors[sh]
    c = d.countries[s['country']]
    n_countries = len(d.models[c['model']]['countries'])
    if n_countries > 1:
        return c['code'] + '_' + s['code']
    return s['code']


def code_with_country(d, sh):
    s = d.sectors[sh]
    return d.countries[s['country']]['code'] + '_' + s['code']


def zone_of(d, sh):
    s = d.sectors[sh]
    c = d.countries[s['country']]
    return (c['model'], c['currency'])


def zones(d, mh):
    """currency -> [sector handles] (declaration order), excluding the external sector's own zone."""
    out = {}
    for sh in d.order:
        m, cur = zone_of(d, sh)
        if m != mh:
            continue
        out.setdefault(cur, []).append(sh)
    return out


def goods_markets(d, mh):
    return [sh for sh in d.order if d.sectors[sh]['cls'] == 'Market' and zone_of(d, sh)[0] == mh]


def demand_var_for(d, sh, market):
    """Local name of the variable through which sector sh demands from `market`, or None."""
    s = d.sectors[sh]
    mk = d.sectors[market]
    if zone_of(d, sh) != zone_of(d, market) or sh == market:
        return None
    if s['country'] == mk['country']:
        if mk['code'] in s['demands']:
            return 'DEM_' + mk['code']
        return None
    fc = full_code(d, market)
    if fc in s['demands']:
        return 'DEM_' + fc
    return None


def demanders(d, market):
    out = []
    for sh in d.order:
        v = demand_var_for(d, sh, market)
        if v is not None:
            out.append((sh, v))
    return out


def market_suppliers(d, market):
    """[(supplier handle, allocation eqn or None)] with the residual supplier last; when no
    AddSupplier was declared: the single sector of the market's country that declares supply."""
    mk = d.sectors[market]
    decl = list(d.suppliers.get(market, []))
    if any(e is None for _, e in decl):
        # the last AddSupplier without equation is the residual one
        resid = [s for s, e in decl if e is None][-1]
        others = [(s, e) for s, e in decl if e is not None]
        return others + [(resid, None)]
    # search: a sector of the same country that has SUP_<code>
    found = []
    for sh in d.order:
        s = d.sectors[sh]
        if sh == market or s['country'] != mk['country']:
            continue
        if s['cls'] in ('Household', 'HouseholdWithExpectations') and s.get('labour') == mk['code']:
            found.append(sh)
        elif s['cls'] == 'FixedMarginBusiness' and s.get('output') == mk['code']:
            found.append(sh)
        elif s['cls'] == 'FixedMarginBusinessMultiOutput' and market in s['supplies_markets']:
            found.append(sh)
        elif ('SUP_' + mk['code']) in s['user_vars']:
            found.append(sh)
    others = [(s, e) for s, e in decl if e is not None]
    if len(found) == 1:
        return others + [(found[0], None)]
    return None    # no or ambiguous supplier: the model must be rejected


def supply_var_for(d, supplier, market):
    s = d.sectors[supplier]
    mk = d.sectors[market]
    if s['country'] == mk['country']:
        return 'SUP_' + mk['code']
    return 'SUP_' + code_with_country(d, market)
