"""Shared execution of numeric ECON oracles (C01, C04, C07) with thresholds and confirmation pass."""
from . import core, econ, econcheck, econgen
from . import econref as R


def tolerance_of(ops):
    tol = 1e-6          # Err_Tolerance line the model emits
    for op in ops:
        if op['op'] == 'SetAttr' and op.get('solver') and op['attr'] == 'ParameterErrorTolerance' and op['value'] is not None:
            tol = float(op['value'])
    return tol


def with_tight(ops, tol=1e-13, cap=5000):
    out = []
    for op in ops:
        if op['op'] == 'SetAttr' and op.get('solver') and op['attr'] in ('ParameterErrorTolerance', 'MaxIterations'):
            continue
        if op['op'] == 'main':
            out.append({'op': 'SetAttr', 'obj': op['model'], 'solver': True, 'attr': 'ParameterErrorTolerance', 'value': tol})
            out.append({'op': 'SetAttr', 'obj': op['model'], 'solver': True, 'attr': 'MaxIterations', 'value': cap})
        out.append(op)
    return out


def models_in(ops):
    return [op['model'] for op in ops if op['op'] == 'main']


def evaluate(ops, which):
    """Run the program, return (sess, decl, {mh: (discs, notes)}, outcomes)."""
    sess = econ.run_program(ops)
    d = R.declare(ops)
    res = {}
    for mh in models_in(ops):
        if mh not in sess.H:
            continue
        out, _ = econ.model_outcome(sess, mh)
        if out != 'ok':
            res[mh] = (None, ['main:' + out])
            continue
        discs, notes = [], []
        if 'conservation' in which:
            discs += econcheck.conservation(sess, ops, mh)
        if 'ledger' in which:
            dd, nn = econcheck.ledger(sess, ops, mh, d)
            discs += dd
            notes += nn
        if 'income' in which:
            dd, nn = econcheck.income_ledger(sess, ops, mh, d)
            discs += dd
            notes += nn
        if 'clearing' in which:
            dd, nn = econcheck.clearing(sess, ops, mh, d)
            discs += dd
            notes += nn
        if 'fx' in which:
            dd, nn = econcheck.fx(sess, ops, mh, d)
            discs += dd
            notes += nn
        res[mh] = (econcheck.worst(discs), notes)
    return sess, d, res


FINAL_REL = 1e-7


def numeric_check(case, which, prop, remap=None):
    """Returns (violations, stats)."""
    ops = case['ops']
    stats = {'runs': 1, 'probes': {}, 'family': {case.get('family', '?'): 1}}
    viol = []
    sess, d, res = evaluate(ops, which)
    tol = tolerance_of(ops)
    cand_thr = max(FINAL_REL, 20.0 * tol)
    stats['build_errors'] = len(sess.errors)
    if sess.errors:
        stats['build_error_kinds'] = {sess.errors[0][2]: 1}
    periods = 0
    for mh, (discs, notes) in res.items():
        if discs is None:
            stats.setdefault('main_outcome', {})
            o = notes[0]
            stats['main_outcome'][o] = stats['main_outcome'].get(o, 0) + 1
            stats['inconclusive_not_solved'] = stats.get('inconclusive_not_solved', 0) + 1
            continue
        stats.setdefault('main_outcome', {})
        stats['main_outcome']['main:ok'] = stats['main_outcome'].get('main:ok', 0) + 1
        periods += econcheck.horizon(sess, mh)
        if notes:
            stats['oracle_notes'] = stats.get('oracle_notes', 0) + 1
            stats.setdefault('note_kinds', {})
            stats['note_kinds'][notes[0][0:40]] = stats['note_kinds'].get(notes[0][0:40], 0) + 1
        if remap is not None:
            discs = [y for y in (remap(x) for x in discs) if y is not None]
        mine = [x for x in discs if x.prop == prop]
        stats['identities_checked'] = stats.get('identities_checked', 0) + len(mine)
        if mine:
            mx = max(x.rel() for x in mine)
            bucket = 'max_rel_residual_tol_le_1e-9' if tol <= 1e-9 else 'max_rel_residual_tol_gt_1e-9'
            stats[bucket] = max(stats.get(bucket, 0.0), mx)
        cands = [x for x in mine if x.rel() > cand_thr]
        if cands:
            stats['candidates'] = stats.get('candidates', 0) + 1
            if tol <= 1e-12:
                confirmed = cands
            else:
                _s2, _d2, res2 = evaluate(with_tight(ops), which)
                d2, n2 = res2.get(mh, (None, ['missing']))
                if d2 is None:
                    stats['inconclusive_confirmation_failed'] = stats.get('inconclusive_confirmation_failed', 0) + 1
                    confirmed = []
                else:
                    keys = set((x.kind, x.signature) for x in cands)
                    if remap is not None:
                        d2 = [y for y in (remap(x) for x in d2) if y is not None]
                    confirmed = [x for x in d2 if x.prop == prop and (x.kind, x.signature) in keys and x.rel() > FINAL_REL]
                    if not confirmed:
                        stats['noise_discarded'] = stats.get('noise_discarded', 0) + 1
            for x in confirmed:
                viol.append(x.violation())
    stats['simulated_periods'] = periods
    # probes
    fam = case.get('family', '')
    for op in ops:
        if op['op'] == 'ExternalSector':
            stats['probes']['external_sector'] = 1
        if op['op'] == 'RegisterCashFlow':
            stats['probes']['registered_flow'] = 1
        if op['op'] in ('GoldStandardGovernment', 'GoldStandardCentralBank'):
            stats['probes']['gold'] = 1
        if op['op'] == 'AssetWeighting':
            stats['probes']['asset_weighting'] = 1
        if op['op'] == 'AddInitialCondition':
            stats['probes']['initial_stocks'] = 1
        if op['op'] == 'AddSupplier' and op.get('eqn'):
            stats['probes']['multi_supplier_market'] = 1
    return viol, stats, sess


def valid_program(case):
    """A shrunk ECON program must stay well formed: it still has a main(), construction raises nothing, every
    market has a unique residual supplier distinct from its rule-based suppliers, and every sector that is
    referenced still exists."""
    ops = case['ops']
    if not any(o['op'] == 'main' for o in ops):
        return False
    # every {name:x} refers to a name saved earlier in the program
    import re as _re
    saved = set()
    for o in ops:
        texts = [o.get('eqn'), o.get('term')] + [e for _c, e in (o.get('weights') or [])]
        for t in texts:
            if isinstance(t, str):
                for nm in _re.findall(r'\{name:([A-Za-z0-9_]+)\}', t):
                    if nm not in saved:
                        return False
        if o['op'] == 'GetVariableName':
            saved.add(o['save_as'])
    d = R.declare(ops)
    for mh in d.models:
        for mk in R.goods_markets(d, mh):
            sl = R.market_suppliers(d, mk)
            if sl is None:
                return False
            if len(set(sh for sh, _ in sl)) != len(sl):
                return False
            if not R.demanders(d, mk):
                return False
    sess = econ.run_program([o for o in ops if o['op'] != 'main'])
    if sess.errors:
        return False
    if any(out == 'noop' for _i, _n, out in sess.log):
        return False
    return True


def list_paths(case):
    return [('ops',)]


def simplify(case):
    """Shorter horizon; default knobs; list exogenous values to round numbers."""
    ops = case['ops']
    for i, op in enumerate(ops):
        if op['op'] == 'SetAttr' and op['attr'] == 'MaxTime' and op['value'] > 2:
            c = core.deep_copy(case)
            c['ops'][i]['value'] = max(2, op['value'] // 2)
            yield c
        if op['op'] == 'SetAttr' and op.get('solver') and op['attr'] in ('TraceStep', 'RunEquationReduction'):
            c = core.deep_copy(case)
            del c['ops'][i]
            yield c


simplifiers = (simplify,)


def program_sig(case, sess):
    """Structure signature: op names + codes + feature switches (not numbers)."""
    shape = []
    for op in case['ops']:
        if op['op'] in ('SetExogenous', 'AddInitialCondition'):
            shape.append((op['op'], op.get('var')))
        elif op['op'] == 'SetAttr':
            shape.append((op['op'], op['attr'], op['value'] if op['attr'] in ('MaxTime', 'RunEquationReduction') else None))
        else:
            shape.append((op['op'], op.get('code'), op.get('currency'), op.get('issuer'), op.get('margin', 0) != 0))
    return core.digest(shape)


# ---------------------------------------------------------------------------------------
# twin comparison (C08, C18)
# ---------------------------------------------------------------------------------------

def compare_series(a, b, rel_thr, rename=None, ignore=()):
    """Compare two series dicts. rename: maps names of a -> names of b. Returns None or
    (kind, details, rel_magnitude)."""
    rename = rename or (lambda n: n)
    ma = {rename(k): v for k, v in a.items() if k not in ignore}
    mb = {k: v for k, v in b.items() if rename(k) not in [rename(i) for i in ignore] and k not in ignore}
    if set(ma) != set(mb):
        return ('variable-set-differs', {'only_first': sorted(set(ma) - set(mb))[0:8],
                                         'only_second': sorted(set(mb) - set(ma))[0:8]}, float('inf'))
    scale = max([1.0] + [abs(x) for v in mb.values() for x in v if core.is_finite_number(x)])
    worst = None
    for k in sorted(ma):
        x, y = ma[k], mb[k]
        if len(x) != len(y):
            return ('length-differs', {'var': k, 'first': len(x), 'second': len(y)}, float('inf'))
        for i in range(len(x)):
            if x[i] == y[i]:
                continue
            if not (core.is_finite_number(x[i]) and core.is_finite_number(y[i])):
                return ('value-differs', {'var': k, 'k': i, 'first': x[i], 'second': y[i]}, float('inf'))
            dd = abs(x[i] - y[i]) / (1.0 + scale)
            if dd > rel_thr and (worst is None or dd > worst[2]):
                worst = ('value-differs', {'var': k, 'k': i, 'first': x[i], 'second': y[i], 'scale': scale}, dd)
    return worst


def run_and_series(ops):
    sess = econ.run_program(ops)
    out = {}
    for mh in models_in(ops):
        if mh in sess.H:
            out[mh] = (econ.model_outcome(sess, mh), econ.series_of(sess, mh))
    return sess, out


def twin_check(ops_a, ops_b, prop, kind, classify, rename=None, ignore=(), stats=None):
    """Solve both programs, compare every model's series; numeric candidates are confirmed at 1e-13.
    classify(details) -> signature suffix. Returns list of violations."""
    stats = stats if stats is not None else {}
    viol = []
    sa, ra = run_and_series(ops_a)
    sb, rb = run_and_series(ops_b)
    tol = max(tolerance_of(ops_a), tolerance_of(ops_b))
    cand_thr = max(FINAL_REL, 50.0 * tol)
    for mh in ra:
        if mh not in rb:
            continue
        (oa, ma), xa = ra[mh]
        (ob, mb), xb = rb[mh]
        key = '%s/%s' % (oa, ob)
        stats.setdefault('outcome_pair', {})
        stats['outcome_pair'][key] = stats['outcome_pair'].get(key, 0) + 1
        if oa != ob:
            if {oa, ob} <= {'ok', 'ConvergenceError'}:
                stats['inconclusive_nonconvergent'] = stats.get('inconclusive_nonconvergent', 0) + 1
                continue
            det = {'first': oa, 'second': ob, 'msg_first': ma, 'msg_second': mb}
            viol.append(core.violation(prop, kind + ':outcome', kind + ':outcome:' + classify(det), **det))
            continue
        if oa != 'ok':
            stats['both_failed'] = stats.get('both_failed', 0) + 1
            continue
        stats['both_solved'] = stats.get('both_solved', 0) + 1
        d = compare_series(xa, xb, cand_thr, rename=rename, ignore=ignore)
        if d is not None and d[2] != float('inf') and tol > 1e-12:
            stats['candidates'] = stats.get('candidates', 0) + 1
            _s1, r1 = run_and_series(with_tight(ops_a))
            _s2, r2 = run_and_series(with_tight(ops_b))
            if r1[mh][0][0] == 'ok' and r2[mh][0][0] == 'ok':
                d = compare_series(r1[mh][1], r2[mh][1], FINAL_REL, rename=rename, ignore=ignore)
                if d is None:
                    stats['noise_discarded'] = stats.get('noise_discarded', 0) + 1
            else:
                stats['inconclusive_confirmation_failed'] = stats.get('inconclusive_confirmation_failed', 0) + 1
                d = None
        if d is not None:
            viol.append(core.violation(prop, kind + ':' + d[0], kind + ':' + d[0] + ':' + classify(d[1]),
                                       rel_magnitude=d[2], **d[1]))
    return viol, sa, sb
