"""
simfw.core -- seeds, PRNG streams, canonical digests, violations, delta debugging.

Nothing in this module reads a clock, an id(), a set or os.urandom: a run is a pure
function of its integer run seed and of the code under test.
"""
import hashlib
import json
import math
import os
import random
import sys


# ---------------------------------------------------------------------------------------
# locating the code under test
# ---------------------------------------------------------------------------------------

def repo_path():
    return os.path.abspath(os.environ.get('VERIF_REPO', '/repo'))


_IMPORTED = False


def import_sut():
    """Import sfc_models from VERIF_REPO (default /repo) and assert that is what we got."""
    global _IMPORTED
    rp = repo_path()
    if not _IMPORTED:
        if rp not in sys.path:
            sys.path.insert(0, rp)
        import warnings
        with warnings.catch_warnings():
            warnings.simplefilter('ignore')
            # sfc_models/__init__ prints nothing but pulls pkg_resources (noisy warning)
            import sfc_models  # noqa
            import sfc_models.models  # noqa
            import sfc_models.sector  # noqa
            import sfc_models.sector_definitions  # noqa
            import sfc_models.external  # noqa
            import sfc_models.equation_solver  # noqa
            import sfc_models.equation  # noqa
            import sfc_models.utils  # noqa
        got = os.path.dirname(os.path.dirname(os.path.abspath(sfc_models.__file__)))
        if os.path.realpath(got) != os.path.realpath(rp):
            raise HarnessError('sfc_models imported from %s, expected %s' % (got, rp))
        _IMPORTED = True
    import sfc_models
    return sfc_models


class HarnessError(Exception):
    """Anything that is the harness's fault; never reported as a violation nor as success."""


# ---------------------------------------------------------------------------------------
# seeds and streams
# ---------------------------------------------------------------------------------------

def run_seed(verif_seed, prop, tier, index):
    """run seed = H(VERIF_SEED, property, tier, index); 48 bits so it prints nicely."""
    h = hashlib.sha256(('%d/%s/%s/%d' % (verif_seed, prop, tier, index)).encode()).digest()
    return int.from_bytes(h[:6], 'big')


def stream(seed, name):
    """One PRNG per purpose; str seeding goes through sha512 and is process independent."""
    return random.Random('%d/%s' % (seed, name))


class Streams(object):
    def __init__(self, seed):
        self.seed = seed
        self._s = {}

    def __getitem__(self, name):
        if name not in self._s:
            self._s[name] = stream(self.seed, name)
        return self._s[name]


# ---------------------------------------------------------------------------------------
# canonical JSON / digests
# ---------------------------------------------------------------------------------------

def _canon(o):
    if isinstance(o, float):
        if o != o:
            return {'__f__': 'nan'}
        if o in (float('inf'), float('-inf')):
            return {'__f__': 'inf' if o > 0 else '-inf'}
        return {'__f__': repr(o)}
    if isinstance(o, (list, tuple)):
        return [_canon(x) for x in o]
    if isinstance(o, dict):
        return {str(k): _canon(o[k]) for k in sorted(o.keys(), key=str)}
    if isinstance(o, (int, str, bool)) or o is None:
        return o
    return {'__repr__': repr(o)}


def canon_json(o):
    return json.dumps(_canon(o), sort_keys=True, separators=(',', ':'))


def digest(o):
    return hashlib.sha256(canon_json(o).encode()).hexdigest()[:16]


def jsonable(o):
    """Make a structure JSON-serialisable for replay/evidence files (floats kept as floats;
    nan/inf become strings)."""
    if isinstance(o, float):
        if o != o:
            return 'nan'
        if o == float('inf'):
            return 'inf'
        if o == float('-inf'):
            return '-inf'
        return o
    if isinstance(o, (list, tuple)):
        return [jsonable(x) for x in o]
    if isinstance(o, dict):
        return {str(k): jsonable(v) for k, v in o.items()}
    if isinstance(o, (int, str, bool)) or o is None:
        return o
    return repr(o)


class EventLog(object):
    """Ordered record of what a run did; its digest is the determinism witness."""

    def __init__(self):
        self.events = []

    def add(self, *fields):
        self.events.append(fields)

    def digest(self):
        return digest(self.events)


# ---------------------------------------------------------------------------------------
# violations
# ---------------------------------------------------------------------------------------

def violation(prop, kind, signature, **details):
    return {'property': prop, 'kind': kind, 'signature': signature, 'details': jsonable(details)}


def same_class(v1, v2):
    return v1['property'] == v2['property'] and v1['kind'] == v2['kind'] and v1['signature'] == v2['signature']


# ---------------------------------------------------------------------------------------
# numeric helpers
# ---------------------------------------------------------------------------------------

def is_finite_number(x):
    if isinstance(x, bool):
        return False
    if isinstance(x, int):
        return True
    if isinstance(x, float):
        return math.isfinite(x)
    return False


def close(a, b, rel=1e-12, abs_=0.0):
    if a == b:
        return True
    if not (is_finite_number(a) and is_finite_number(b)):
        return False
    return abs(a - b) <= max(abs_, rel * max(abs(a), abs(b)))


# ---------------------------------------------------------------------------------------
# delta debugging
# ---------------------------------------------------------------------------------------

def ddmin(items, test, max_tests=400):
    """Classic ddmin over a list. test(sublist) -> True iff the failure persists.
    Returns a 1-minimal (within the test budget) sublist."""
    items = list(items)
    n = 2
    tests = [0]

    def t(sub):
        tests[0] += 1
        return test(sub)

    while len(items) >= 2 and tests[0] < max_tests:
        chunk = max(1, len(items) // n)
        subsets = [items[i:i + chunk] for i in range(0, len(items), chunk)]
        reduced = False
        # try complements first (removing one chunk) - usually most productive
        for i in range(len(subsets)):
            comp = [x for j, s in enumerate(subsets) if j != i for x in s]
            if tests[0] >= max_tests:
                break
            if t(comp):
                items = comp
                n = max(n - 1, 2)
                reduced = True
                break
        if not reduced:
            if n >= len(items):
                break
            n = min(len(items), n * 2)
    if len(items) == 1 and tests[0] < max_tests:
        if t([]):
            items = []
    return items


def get_path(case, path):
    o = case
    for p in path:
        o = o[p]
    return o


def set_path(case, path, value):
    o = case
    for p in path[:-1]:
        o = o[p]
    o[path[-1]] = value


def deep_copy(o):
    return json.loads(json.dumps(o))


def minimise_case(case, fails, list_paths, simplifiers=(), max_tests=600):
    """Generic minimiser over an explicit JSON case.

    fails(case) -> True iff the same violation class recurs.
    list_paths(case) -> list of paths (tuples of keys) whose value is a list to ddmin.
    simplifiers: functions case -> iterator of candidate simpler cases.
    """
    budget = [max_tests]

    def guarded(c):
        if budget[0] <= 0:
            return False
        budget[0] -= 1
        try:
            return fails(c)
        except HarnessError:
            return False

    changed = True
    rounds = 0
    while changed and rounds < 4 and budget[0] > 0:
        changed = False
        rounds += 1
        for path in list_paths(case):
            try:
                cur = get_path(case, path)
            except (KeyError, IndexError, TypeError):
                continue
            if not isinstance(cur, list) or len(cur) == 0:
                continue

            def test(sub, path=path):
                c = deep_copy(case)
                set_path(c, path, sub)
                return guarded(c)

            new = ddmin(cur, test, max_tests=max(10, budget[0] // 2))
            if len(new) < len(cur):
                set_path(case, path, new)
                changed = True
        for simp in simplifiers:
            progress = True
            while progress and budget[0] > 0:
                progress = False
                for cand in simp(deep_copy(case)):
                    if canon_json(cand) == canon_json(case):
                        continue
                    if guarded(cand):
                        case = cand
                        changed = True
                        progress = True
                        break
    return case
