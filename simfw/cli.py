"""Command line: check / replay / selftest."""
import argparse
import os
import sys


def main(argv=None):
    ap = argparse.ArgumentParser(prog='run')
    sub = ap.add_subparsers(dest='cmd', required=True)
    c = sub.add_parser('check')
    c.add_argument('property')
    c.add_argument('--tier', default=os.environ.get('VERIF_TIER', 'quick'), choices=['quick', 'thorough'])
    c.add_argument('--runs', type=int, default=None)
    c.add_argument('--workers', type=int, default=None)
    c.add_argument('--wall-cap', type=float, default=None)
    c.add_argument('--seed', type=int, default=None)
    r = sub.add_parser('replay')
    r.add_argument('path')
    s = sub.add_parser('selftest')
    s.add_argument('what', choices=['determinism', 'mutants'])
    s.add_argument('--props', default='')
    s.add_argument('--runs', type=int, default=None)
    s.add_argument('--only', default=None)
    a = ap.parse_args(argv)
    from . import driver
    if a.cmd == 'check':
        seed = a.seed if a.seed is not None else int(os.environ.get('VERIF_SEED', '20260927'))
        return driver.check(a.property.upper(), a.tier, seed, runs=a.runs, workers=a.workers,
                            wall_cap=a.wall_cap)
    if a.cmd == 'replay':
        return driver.replay(a.path)
    if a.cmd == 'selftest':
        from . import selftest
        return selftest.main(a)
    return 2


if __name__ == '__main__':
    sys.exit(main())
