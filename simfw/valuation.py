"""Valuations for value-preservation checks on expressions (C05, C06, C12)."""
import math
import re

from . import core

POOL = [1.0, -1.0, 0.1, 3.7, -2.5e-3, 1.0e6, 7.0, -13.25, 0.3333333333333333, 2.0, -0.5, 1234.5678,
        1e-5, -3.0e4, 19.0, 0.75]

NAME_RE = re.compile(r'[A-Za-z_][A-Za-z_0-9]*')

FUNCS = {}
for _n in dir(math):
    if not _n.startswith('_'):
        FUNCS[_n] = getattr(math, _n)
FUNCS.update({'max': max, 'min': min, 'abs': abs, 'pow': pow, 'float': float, 'round': round, 'sum': sum})


def names_in(txt):
    # numbers like 1e5 contain 'e5': strip numeric literals first
    t = re.sub(r'(?<![A-Za-z_0-9])[0-9]*\.?[0-9]+([eE][-+]?[0-9]+)?', ' ', txt)
    return [n for n in NAME_RE.findall(t) if n not in FUNCS]


def make_valuations(names, rng, count=8):
    """count valuations; every name gets an independent awkward non-zero float."""
    names = sorted(set(names))
    out = []
    for _ in range(count):
        out.append({n: POOL[rng.randrange(len(POOL))] * (1.0 + 0.01 * rng.randrange(1, 50)) for n in names})
    return out


def ev(txt, env):
    ns = {'__builtins__': {}}
    ns.update(FUNCS)
    return eval(txt, ns, dict(env))


def same_value(txt, want_fn, valuations, abs_terms_fn=None, rel=1e-12):
    """Evaluate txt under each valuation and compare with want_fn(env).
    Returns None if all agree, else a dict describing the first disagreement.
    abs_terms_fn(env) -> sum of |terms| (the scale for the tolerance)."""
    for env in valuations:
        try:
            got = ev(txt, env)
        except Exception as ex:   # noqa
            return {'error': type(ex).__name__ + ': ' + str(ex)[0:80], 'text': txt}
        want = want_fn(env)
        scale = abs_terms_fn(env) if abs_terms_fn is not None else max(abs(want), abs(got) if core.is_finite_number(got) else 0.0)
        if not core.is_finite_number(got) or abs(got - want) > rel * max(scale, 1e-300):
            return {'got': got, 'want': want, 'text': txt, 'env': {k: env[k] for k in sorted(env)[0:8]}}
    return None
