"""
SimFS -- the in-memory, fault-injecting file system that replaces open() in
sfc_models.utils (Logger) and sfc_models.deprecated.iterative_machine_generator.

Fault kinds (each fires at most once per plan entry, counted when it fires):
  fs_open_fail   : the n-th open() of a matching path raises OSError
  fs_write_fail  : the n-th write() to a matching path raises OSError (nothing written)
  fs_short_write : the n-th write() to a matching path stores only a prefix, then raises OSError
  fs_close_fail  : the close() of a matching path raises OSError (data already stored)
"""
import io


class SimFile(object):
    def __init__(self, fs, path, mode, encoding=None, errors=None):
        self.fs = fs
        self.path = path
        self.mode = mode
        self.closed = False
        # text layer of the real open(): what is stored is what a reader of the file gets back (UTF-8 by default)
        self.encoding = encoding
        self.errors = errors
        if 'w' in mode:
            fs.files[path] = ''
            fs.acked[path] = ''
        elif 'r' in mode:
            if path not in fs.files:
                raise FileNotFoundError(path)
            self._reader = io.StringIO(fs.files[path])

    def write(self, txt):
        if self.closed:
            raise ValueError('I/O operation on closed file.')
        fs = self.fs
        if self.encoding is not None:
            txt = txt.encode(self.encoding, self.errors or 'strict').decode(self.encoding)
        fs.counts['write'] += 1
        n = fs.write_count.get(self.path, 0) + 1
        fs.write_count[self.path] = n
        f = fs.match('fs_write_fail', self.path, n)
        if f is not None:
            fs.fire(f)
            raise OSError('simfs: injected write failure ' + self.path)
        f = fs.match('fs_short_write', self.path, n)
        if f is not None:
            fs.fire(f)
            part = txt[0:len(txt) // 2]
            fs.files[self.path] += part
            raise OSError('simfs: injected short write ' + self.path)
        fs.files[self.path] += txt
        fs.acked[self.path] += txt
        return len(txt)

    def read(self):
        return self._reader.read()

    def readline(self):
        return self._reader.readline()

    def flush(self):
        pass

    def close(self):
        if self.closed:
            return
        self.closed = True
        self.fs.counts['close'] += 1
        self.fs.open_handles.discard_path(self.path, self)
        f = self.fs.match('fs_close_fail', self.path, 1)
        if f is not None:
            self.fs.fire(f)
            raise OSError('simfs: injected close failure ' + self.path)

    def __enter__(self):
        return self

    def __exit__(self, *a):
        self.close()
        return False


class _Handles(object):
    def __init__(self):
        self.lst = []

    def add(self, path, f):
        self.lst.append((path, f))

    def discard_path(self, path, f):
        self.lst = [(p, g) for (p, g) in self.lst if g is not f]

    def __len__(self):
        return len(self.lst)


class SimFS(object):
    def __init__(self, faults=()):
        self.files = {}      # path -> everything that reached the "disk"
        self.acked = {}      # path -> text of writes that returned normally
        self.write_count = {}
        self.open_count = {}
        self.counts = {'open': 0, 'write': 0, 'close': 0}
        self.faults = [dict(f) for f in faults]
        self.fired = []
        self.open_handles = _Handles()

    # fault plan ------------------------------------------------------------------
    def match(self, kind, path, n):
        for f in self.faults:
            if f.get('done'):
                continue
            if f['kind'] != kind:
                continue
            if f.get('path_contains', '') not in path:
                continue
            if f.get('nth', 1) != n:
                continue
            return f
        return None

    def fire(self, f):
        f['done'] = True
        self.fired.append(f['kind'])

    # the seam -------------------------------------------------------------------
    def open(self, path, mode='r', *a, **kw):
        self.counts['open'] += 1
        n = self.open_count.get(path, 0) + 1
        self.open_count[path] = n
        f = self.match('fs_open_fail', path, n)
        if f is not None:
            self.fire(f)
            raise OSError('simfs: injected open failure ' + path)
        h = SimFile(self, path, mode, encoding=kw.get('encoding'), errors=kw.get('errors'))
        self.open_handles.add(path, h)
        return h


class SeamPatch(object):
    """Context manager rebinding the module attribute `open` of the two modules that do file
    I/O, so nothing under test touches the real disk."""

    def __init__(self, fs):
        self.fs = fs
        self.saved = []

    def __enter__(self):
        import sfc_models.utils as U
        import sfc_models.deprecated.iterative_machine_generator as G
        for mod in (U, G):
            had = 'open' in mod.__dict__
            self.saved.append((mod, had, mod.__dict__.get('open')))
            mod.open = self.fs.open
        return self.fs

    def __exit__(self, *a):
        for mod, had, old in self.saved:
            if had:
                mod.open = old
            else:
                try:
                    del mod.open
                except AttributeError:
                    pass
        return False
