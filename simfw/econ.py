"""
ECON sessions: an explicit op language over the public object API of sfc_models (Model, Country,
sectors, markets, external sector ...), an interpreter that executes one op at a time against
the real library, and the observation record the oracles work on.

Ops are JSON dicts with symbolic handles, e.g.
  {"op": "Household", "id": "s3", "country": "c0", "code": "HH", "alpha_income": 0.6, ...}
An op whose handle does not exist (because shrinking removed its creator) is a recorded no-op.
"""
import re
import warnings

from . import core

SECTOR_CLASSES = ('FixedMarginBusinessSub', 'ConsolidatedGovernment', 'GoldStandardGovernment', 'Treasury', 'CentralBank',
                  'GoldStandardCentralBank', 'Household', 'HouseholdWithExpectations', 'Capitalists',
                  'FixedMarginBusiness', 'FixedMarginBusinessMultiOutput', 'TaxFlow', 'Market',
                  'MoneyMarket', 'DepositMarket', 'Sector')


class Session(object):
    """Interpreter state of one ECON session."""

    def __init__(self):
        self.H = {}          # handle -> object
        self.N = {}          # saved names (GetVariableName results)
        self.kind = {}       # handle -> op name that created it
        self.opinfo = {}     # handle -> creating op
        self.log = []        # (op index, op name, outcome)
        self.errors = []     # (op index, op, exception class, message)
        self.main_outcome = {}   # model handle -> (outcome, message)
        self.final_text = {}
        self.pre_vars = {}   # sector handle -> variable list just before main()
        self.model_of = {}

    def subst(self, txt):
        """Replace {name:xx} tokens by the saved name xx."""
        if not isinstance(txt, str):
            return txt

        def rep(m):
            return self.N.get(m.group(1), '__MISSING_NAME__')
        return re.sub(r'\{name:([A-Za-z0-9_]+)\}', rep, txt)


def _mods():
    core.import_sut()
    import sfc_models.models as M
    import sfc_models.sector as S
    import sfc_models.sector_definitions as D
    import sfc_models.external as E
    return M, S, D, E


def _logic_error():
    from sfc_models.utils import LogicError
    return LogicError


def exec_op(sess, op, index=0):
    """Execute one op. Returns outcome string: 'ok', 'noop' (missing handle) or exception class."""
    M, S, D, E = _mods()
    H = sess.H
    name = op['op']

    def need(*keys):
        for k in keys:
            v = op.get(k)
            if isinstance(v, list):
                for x in v:
                    if x not in H:
                        return False
            elif v is not None and v not in H:
                return False
        return True

    try:
        with warnings.catch_warnings():
            warnings.simplefilter('ignore')
            if name == 'Model':
                H[op['id']] = M.Model()
            elif name == 'ExternalSector':
                if not need('model'):
                    return 'noop'
                H[op['id']] = E.ExternalSector(H[op['model']])
            elif name in ('Country', 'Region'):
                if not need('model'):
                    return 'noop'
                cls = M.Country if name == 'Country' else M.Region
                H[op['id']] = cls(H[op['model']], op['code'], op.get('long_name', ''), currency=op.get('currency'))
            elif name == 'GetSector':
                if not need('country'):
                    return 'noop'
                H[op['id']] = H[op['country']][op['code']]
            elif name in SECTOR_CLASSES:
                if not need('country'):
                    return 'noop'
                c = H[op['country']]
                ln = op.get('long_name', '')
                if name in ('ConsolidatedGovernment', 'Treasury'):
                    o = getattr(D, name)(c, op['code'], ln)
                elif name == 'GoldStandardGovernment':
                    o = D.GoldStandardGovernment(c, op['code'], ln, initial_gold_stock=op.get('initial_gold', 0.0))
                elif name in ('CentralBank', 'GoldStandardCentralBank'):
                    tre = H.get(op.get('treasury')) if op.get('treasury') else None
                    if name == 'CentralBank':
                        o = D.CentralBank(c, op['code'], ln, treasury=tre)
                    else:
                        o = D.GoldStandardCentralBank(c, op['code'], ln, treasury=tre,
                                                      initial_gold_stock=op.get('initial_gold', 0.0))
                elif name in ('Household', 'HouseholdWithExpectations'):
                    kw = {}
                    if op.get('good') is not None:
                        kw['consumption_good_name'] = op['good']
                    if op.get('labour') is not None:
                        kw['labour_name'] = op['labour']
                    o = getattr(D, name)(c, op['code'], ln, alpha_income=op.get('alpha_income', 0.6),
                                         alpha_fin=op.get('alpha_fin', 0.4), **kw)
                elif name == 'Capitalists':
                    kw = {}
                    if op.get('good') is not None:
                        kw['consumption_good_name'] = op['good']
                    o = D.Capitalists(c, op['code'], ln, alpha_income=op.get('alpha_income', 0.7),
                                      alpha_fin=op.get('alpha_fin', 0.3), **kw)
                elif name in ('FixedMarginBusiness', 'FixedMarginBusinessSub'):
                    kw = {}
                    if op.get('labour') is not None:
                        kw['labour_input_name'] = op['labour']
                    if op.get('output') is not None:
                        kw['output_name'] = op['output']
                    cls_ = D.FixedMarginBusiness
                    if name == 'FixedMarginBusinessSub':
                        # a user-defined subclass, as the bundled investment examples do (BusinessWithInvestment)
                        cls_ = sess.H.get('class:FMBsub')
                        if cls_ is None:
                            cls_ = type('BusinessWithInvestment', (D.FixedMarginBusiness,), {})
                            sess.H['class:FMBsub'] = cls_
                    o = cls_(c, op['code'], ln, profit_margin=op.get('margin', 0.0), **kw)
                elif name == 'FixedMarginBusinessMultiOutput':
                    if not need('markets'):
                        return 'noop'
                    kw = {}
                    if op.get('labour') is not None:
                        kw['labour_input_name'] = op['labour']
                    o = D.FixedMarginBusinessMultiOutput(c, op['code'], ln, profit_margin=op.get('margin', 0.0),
                                                         market_list=[H[m] for m in op.get('markets', [])], **kw)
                elif name == 'TaxFlow':
                    kw = {}
                    if op.get('paid_to') is not None:
                        kw['taxes_paid_to'] = op['paid_to']
                    o = D.TaxFlow(c, op['code'], ln, taxrate=op.get('taxrate', 0.0), **kw)
                elif name == 'Market':
                    o = S.Market(c, op['code'], ln)
                elif name in ('MoneyMarket', 'DepositMarket'):
                    kw = {}
                    if op.get('code') is not None:
                        kw['code'] = op['code']
                    if op.get('issuer') is not None:
                        kw['issuer_short_code'] = op['issuer']
                    o = getattr(D, name)(c, long_name=ln, **kw)
                else:
                    o = S.Sector(c, op['code'], ln, has_F=op.get('has_F', True))
                H[op['id']] = o
            elif name == 'AddVariable':
                if not need('sector'):
                    return 'noop'
                H[op['sector']].AddVariable(op['name'], op.get('desc', ''), sess.subst(op.get('eqn', '')))
            elif name == 'SetRHS':
                if not need('sector'):
                    return 'noop'
                H[op['sector']].SetEquationRightHandSide(op['name'], sess.subst(op['eqn']))
            elif name == 'AddTerm':
                if not need('sector'):
                    return 'noop'
                H[op['sector']].AddTermToEquation(op['name'], sess.subst(op['term']))
            elif name == 'AddCashFlow':
                if not need('sector'):
                    return 'noop'
                H[op['sector']].AddCashFlow(sess.subst(op['term']), sess.subst(op.get('eqn')), op.get('desc'),
                                            op.get('is_income', True))
            elif name == 'GetVariableName':
                if not need('sector'):
                    return 'noop'
                sess.N[op['save_as']] = H[op['sector']].GetVariableName(op['var'])
            elif name == 'AddSupplier':
                if not need('market', 'supplier'):
                    return 'noop'
                H[op['market']].AddSupplier(H[op['supplier']], sess.subst(op.get('eqn')))
            elif name == 'AddMarket':
                if not need('business', 'market'):
                    return 'noop'
                H[op['business']].AddMarket(H[op['market']])
            elif name == 'AssetWeighting':
                if not need('sector'):
                    return 'noop'
                w = [(c, sess.subst(e)) for c, e in op['weights']]
                if op.get('as_dict'):
                    w = dict(w)
                H[op['sector']].GenerateAssetWeighting(w, op['residual'])
            elif name == 'RegisterCashFlow':
                if not need('model', 'source', 'target'):
                    return 'noop'
                H[op['model']].RegisterCashFlow(H[op['source']], H[op['target']], op['var'],
                                                is_income_source=op.get('inc_src', True),
                                                is_income_dest=op.get('inc_dst', True))
            elif name == 'SetExogenous':
                if not need('sector'):
                    return 'noop'
                val = op['value']
                if op.get('as_tuple'):
                    val = tuple(val)
                H[op['sector']].SetExogenous(op['var'], val)
            elif name == 'AddExogenous':
                if not need('model'):
                    return 'noop'
                val = op['value']
                if op.get('as_tuple'):
                    val = tuple(val)
                H[op['model']].AddExogenous(op['fullcode'], op['var'], val)
            elif name == 'AddInitialCondition':
                if op.get('by') == 'sector':
                    if not need('sector'):
                        return 'noop'
                    H[op['sector']].AddInitialCondition(op['var'], op['value'])
                else:
                    if not need('model'):
                        return 'noop'
                    H[op['model']].AddInitialCondition(op['fullcode'], op['var'], op['value'])
            elif name == 'AddGlobalEquation':
                if not need('model'):
                    return 'noop'
                H[op['model']].AddGlobalEquation(op['var'], op.get('desc', ''), sess.subst(op['eqn']))
            elif name == 'SetAttr':
                if not need('obj'):
                    return 'noop'
                o = H[op['obj']]
                if op.get('solver'):
                    o = o.EquationSolver
                setattr(o, op['attr'], op['value'] if op.get('ref') is None else H.get(op['ref']))
            elif name == 'AddVariableEq':
                if not need('sector'):
                    return 'noop'
                # one Equation object (owned by the caller) may be registered in several sectors
                from sfc_models.equation import Equation
                eqo = sess.H.get('eqobj:' + op['eqobj'])
                if eqo is None:
                    eqo = Equation(op['text'])
                    sess.H['eqobj:' + op['eqobj']] = eqo
                H[op['sector']].AddVariableFromEquation(eqo)
            elif name == 'SetGoldPurchases':
                if not need('gold', 'sector'):
                    return 'noop'
                # public method of the external sector's gold market: books the purchases at construction time
                H[op['gold']].SetGoldPurchases(H[op['sector']], op['var'], op.get('initial_stock', 0.0))
            elif name == 'LogInfo':
                if not need('model'):
                    return 'noop'
                # public diagnostic dump; (re)generates the full sector codes as a side effect
                H[op['model']].LogInfo()
            elif name == 'Query':
                # read-only queries a model-building script makes while it constructs (fresh lists are documented
                # return values, so the caller may do what it likes with them); none of this declares anything
                if not need('model', 'country', 'sector'):
                    return 'noop'
                w = op['what']
                lst = None
                try:
                    if w == 'SectorVariables':
                        lst = H[op['sector']].GetVariables()
                    elif w == 'BlockEquationList':
                        lst = H[op['sector']].EquationBlock.GetEquationList()
                    elif w == 'ModelSectors':
                        lst = H[op['model']].GetSectors()
                    elif w == 'ZoneSectors':
                        cz = H[op['country']].CurrencyZone
                        if cz is not None:
                            lst = cz.GetSectors()
                    elif w == 'ZoneLookup':
                        cz = H[op['country']].CurrencyZone
                        if cz is not None:
                            cz.LookupSector(op['code'])
                    elif w == 'CountryLookup':
                        H[op['country']].LookupSector(op['code'])
                    elif w == 'ModelLookup':
                        H[op['model']].LookupSector(op['code'])
                    elif w == 'HasVariable':
                        op['code'] in H[op['sector']].GetVariables()
                except (KeyError, _logic_error()):
                    return 'ok'
                th = op.get('then')
                if lst is not None and type(lst) is list and th:
                    if th == 'clear':
                        del lst[:]
                    elif th == 'pop' and lst:
                        lst.pop(op.get('index', 0) % len(lst))
                    elif th == 'reverse':
                        lst.reverse()
                    elif th == 'append':
                        lst.append('BOGUS_NAME' if w in ('SectorVariables', 'BlockEquationList') else None)
            elif name == 'Exclude':
                if not need('sector'):
                    return 'noop'
                s = H[op['sector']]
                s.GetModel().AddCashFlowIncomeExclusion(s, op['name'])
            elif name == 'Builder':
                # bundled gl_book builders, stand-alone (model None) or embedded into an existing Model
                import sfc_models.gl_book.chapter3 as ch3
                import sfc_models.gl_book.chapter4 as ch4
                cls = {'SIM': ch3.SIM, 'SIMEX1': ch3.SIMEX1, 'PC': ch4.PC}[op['which']]
                mdl = H.get(op.get('model')) if op.get('model') else None
                if op.get('model') and mdl is None:
                    return 'noop'
                b = cls(op['country_code'], model=mdl, use_book_exogenous=op.get('book_exo', False))
                m = b.build_model()
                H[op['id']] = m
                H[op['id'] + '.country'] = b.Country
                for s in b.Country.SectorList:
                    H[op['id'] + '.' + s.Code] = s
                    sess.kind[op['id'] + '.' + s.Code] = type(s).__name__
            elif name == 'main':
                if not need('model'):
                    return 'noop'
                return run_main(sess, op)
            else:
                raise core.HarnessError('unknown ECON op ' + name)
    except core.HarnessError:
        raise
    except Warning as ex:
        sess.errors.append((index, op, type(ex).__name__, str(ex)[0:200]))
        return type(ex).__name__
    except Exception as ex:   # noqa
        sess.errors.append((index, op, type(ex).__name__, str(ex)[0:200]))
        return type(ex).__name__
    if 'id' in op:
        sess.kind[op['id']] = name
        sess.opinfo[op['id']] = op
    return 'ok'


def sectors_of_model(sess, mh):
    """[(handle or synthetic key, sector object)] for every sector of the model."""
    m = sess.H[mh]
    rev = {}
    for h, o in sess.H.items():
        rev[id(o)] = h
    out = []
    for c in m.CountryList:
        for s in c.SectorList:
            out.append((rev.get(id(s), 'auto:%s_%s' % (c.Code, s.Code)), s))
    return out


def run_main(sess, op):
    mh = op['model']
    m = sess.H[mh]
    # snapshot of variable lists before main() (public API), for reference models
    for h, s in sectors_of_model(sess, mh):
        sess.pre_vars[h] = list(s.GetVariables())
    import contextlib
    import io
    patch = contextlib.nullcontext()
    if op.get('base_file_name') is not None and not getattr(sess, 'fs_patched', False):
        # logging to files goes through a private fault-free SimFS unless the caller installed its own seam
        from .simfs import SimFS, SeamPatch
        patch = SeamPatch(SimFS(()))
    try:
        with warnings.catch_warnings(), contextlib.redirect_stdout(io.StringIO()), patch:
            warnings.simplefilter('ignore')
            if op.get('base_file_name') is not None:
                txt = m.main(op['base_file_name'])
            else:
                txt = m.main()
        sess.main_outcome[mh] = ('ok', '')
        sess.final_text[mh] = m.FinalEquations
        return 'ok'
    except core.HarnessError:
        raise
    except BaseException as ex:   # noqa  (Warning subclasses are Exceptions; keep broad)
        if isinstance(ex, (KeyboardInterrupt, SystemExit)):
            raise
        sess.main_outcome[mh] = (type(ex).__name__, str(ex)[0:300])
        sess.final_text[mh] = m.FinalEquations
        return type(ex).__name__


def run_program(ops, sess=None):
    sess = sess or Session()
    for i, op in enumerate(ops):
        out = exec_op(sess, op, i)
        sess.log.append((i, op['op'], out))
    return sess


# ---------------------------------------------------------------------------------------
# observation helpers (public API only)
# ---------------------------------------------------------------------------------------

def series_of(sess, mh):
    return {k: list(v) for k, v in sess.H[mh].EquationSolver.TimeSeries.items()}


def var_series(sess, mh, sector, local):
    """Series of a sector-local variable, located through GetVariableName (public API)."""
    ts = sess.H[mh].EquationSolver.TimeSeries
    try:
        name = sector.GetVariableName(local)
    except KeyError:
        return None
    return ts.get(name)


def model_outcome(sess, mh):
    return sess.main_outcome.get(mh, ('not-run', ''))


# ---------------------------------------------------------------------------------------
# independent parser of the final equation text (documented line forms only)
# ---------------------------------------------------------------------------------------

NAME = re.compile(r'[A-Za-z_][A-Za-z_0-9]*')
NUM = re.compile(r'(?<![A-Za-z_0-9])[0-9]*\.?[0-9]+([eE][-+]?[0-9]+)?')


def parse_final(text):
    """Parse Model.FinalEquations. Returns dict with
       'eqs': [(lhs, rhs)], 'lags': [(lhs, source)], 'ics': [(var, value)], 'exo': [(lhs, rhs)],
       'maxtime', 'err_tol', 'dups': [lhs seen twice]."""
    out = {'eqs': [], 'lags': [], 'ics': [], 'exo': [], 'maxtime': None, 'err_tol': None, 'dups': [], 'bad': []}
    mode = 'endo'
    seen = set()
    for raw in text.split('\n'):
        line = raw
        if '# Exogenous Variables' in line:
            mode = 'exo'
            continue
        pos = line.find('#')
        if pos > -1:
            line = line[0:pos]
        line = line.strip()
        if not line:
            continue
        if line.count('=') != 1:
            out['bad'].append(raw)
            continue
        lhs, rhs = [x.strip() for x in line.split('=')]
        if lhs == 'MaxTime':
            out['maxtime'] = int(rhs)
            continue
        if lhs == 'Err_Tolerance':
            out['err_tol'] = rhs
            continue
        if lhs.endswith('(0)'):
            out['ics'].append((lhs[:-3], rhs))
            continue
        if lhs in seen:
            out['dups'].append(lhs)
        seen.add(lhs)
        if mode == 'exo':
            out['exo'].append((lhs, rhs))
            continue
        m = re.fullmatch(r'([A-Za-z_][A-Za-z_0-9]*)\s*\(\s*k\s*-\s*1\s*\)', rhs)
        if m:
            out['lags'].append((lhs, m.group(1)))
        else:
            out['eqs'].append((lhs, rhs))
    return out


def names_in_rhs(rhs):
    t = NUM.sub(' ', rhs)
    return NAME.findall(t)
